import A816.Model.Nodes
/-!
# L5 — code generation (`a816/parse/codegen.py`)

`gen` follows `_code_gen` and every `generate_*` function.  State: the resolver (scopes are created
here), the macro table and the virtual file system.  The fuel bounds the Python call depth (macro
recursion); loop counts come from evaluated bounds.
-/
namespace A816

structure MacroDef where
  params : List String
  body : List Ast
  deriving Inhabited

structure GenState where
  r : Resolver
  macros : List (String × MacroDef)
  fs : FS
  deriving Inhabited

abbrev GM := StateT GenState (Except Err)

def liftOpt {α} (e : Err) : Option α → GM α
  | some a => pure a
  | none => throw e

def gEval (env : Env) (e : PExpr) : GM Int := do
  let st ← get
  match evalP env st.r e with
  | .ok v => pure v
  | .error er => throw er

def modR (f : Resolver → Resolver) : GM Unit := modify fun st => { st with r := f st.r }

def gUseNext : GM Unit := do
  let st ← get
  match st.r.useNextScope with
  | some r => set { st with r := r }
  | none => throw .index

def gRestore (exports : Bool) : GM Unit := do
  let st ← get
  match st.r.restoreScope exports with
  | some r => set { st with r := r }
  | none => throw .runtime

/-- `path.replace("/", "_").replace(".", "_")` -/
def symbolBase (path : String) : String :=
  String.ofList (path.toList.map fun c => if c == '/' || c == '.' then '_' else c)

def mapArg (args : List (String × MapVal)) (k : String) : Option MapVal :=
  -- dict: the last assignment of a key wins
  alookup k args.reverse

/-- `generate_map` -/
def genMap (args : List (String × MapVal)) : GM Unit := do
  let ident ← liftOpt .key (mapArg args "identifier")
  let bank ← liftOpt .key (mapArg args "bank_range")
  let _addr ← liftOpt .key (mapArg args "addr_range")
  let mask ← liftOpt .key (mapArg args "mask")
  let identS := match ident with
    | .num n => toString n
    | .pair a b => s!"({a}, {b})"
  let st ← get
  if !st.r.userBus.editable then throw .runtime
  let (lo, hi) ← match bank with
    | .pair a b => pure (a, b)
    | .num _ => throw .type
  let m ← match mask with
    | .num n => pure n
    | .pair _ _ => throw .type
  let ram := (mapArg args "writable").isSome
  let mirror ← match mapArg args "mirror_bank_range" with
    | none => pure none
    | some (.pair a b) => pure (some (a.toNat, b.toNat))
    | some (.num n) => if n == 0 then pure none else throw .type
  match st.r.userBus.map identS lo.toNat hi.toNat m.toNat ram mirror with
  | some b => set { st with r := { st.r with userBus := b } }
  | none => throw .runtime

mutual

/-- `_code_gen(ast_nodes, resolver, macro_definitions)` -/
def genList (env : Env) : Nat → List Ast → GM (List Node)
  | 0, _ => throw .recursion
  | _, [] => pure []
  | fuel+1, a :: rest => do
    let n1 ← gen env fuel a
    let n2 ← genList env fuel rest
    pure (n1 ++ n2)

/-- the body of the `for k in range(from, to)` loop of `generate_for`, `count` iterations starting at `k` -/
def genFor (env : Env) : Nat → Nat → Int → String → List Ast → GM (List Node)
  | 0, _, _, _, _ => throw .recursion
  | _, 0, _, _, _ => pure []
  | fuel+1, count+1, k, sym, body => do
    modR fun r => r.appendScope .internal
    gUseNext
    let inner ← genList env fuel body
    gRestore false
    let rest ← genFor env fuel count (k + 1) sym body
    pure (Node.scopeEnter :: Node.symbolConst sym k :: inner ++ Node.scopePop :: rest)

/-- one generator call (`generators[node.kind](…)`) -/
def gen (env : Env) : Nat → Ast → GM (List Node)
  | 0, _ => throw .recursion
  | fuel+1, ast => do
    match ast with
    | .block body _ => genList env fuel body
    | .scope name body _ => do
      modR fun r => r.appendScope (.named name)
      gUseNext
      let inner ← genList env fuel body
      gRestore false
      pure (Node.scopeEnter :: inner ++ [Node.scopePop])
    | .compound body _ => do
      modR fun r => r.appendScope .plain
      gUseNext
      let inner ← genList env fuel body
      gRestore false
      pure (Node.scopeEnter :: inner ++ [Node.scopePop])
    | .map args _ => do genMap args; pure []
    | .macro name params body _ => do
      modify fun st => { st with macros := ainsert name ⟨params, body⟩ st.macros }
      pure []
    | .macroApply name args _ => do
      let st ← get
      let md ← liftOpt .key (alookup name st.macros)
      -- arguments are evaluated at the call site, before the macro scope exists (F09 repair)
      let bound ← (List.range md.params.length).mapM fun i =>
        match args[i]? with
        | none => (throw .index : GM (Option (Sum Int (List Ast))))
        | some (MArg.block b _) => pure (some (Sum.inr b))
        | some (MArg.expr e) => do
          let st ← get
          match evalP env st.r e with
          | .ok v => pure (some (Sum.inl v))
          | .error (.symbolNotDefined _) => pure none
          | .error er => throw er
      modR fun r => r.appendScope .plain
      gUseNext
      let mut deferred : List Node := []
      for (p, i) in md.params.zip (List.range md.params.length) do
        match bound[i]? with
        | some (some (Sum.inl v)) => modR fun r => r.addSymbol p v
        | some (some (Sum.inr b)) => modR fun r => r.addCodeSymbol p b
        | _ =>
          match args[i]? with
          | some (MArg.expr e) => deferred := deferred ++ [Node.symbol p e]
          | _ => pure ()
      let inner ← genList env fuel md.body
      gRestore false
      pure (Node.scopeEnter :: deferred ++ inner ++ [Node.scopePop])
    | .codeLookup name info => do
      let st ← get
      match st.r.valueFor name with
      | .code body => genList env fuel body
      | .int _ => throw (nodeErr "not-a-code-block" info)
      | .undefined => throw (.symbolNotDefined name)
    | .ifNode cond thenB elseB _ => do
      let st ← get
      let c : Bool ← match evalP env st.r cond with
        | .ok v => pure (v != 0)
        | .error .key => pure false
        | .error (.symbolNotDefined _) => pure false
        | .error er => throw er
      if c then genList env fuel thenB
      else match elseB with
        | some eb => genList env fuel eb
        | none => pure []
    | .forNode sym lo hi body _ => do
      let a ← gEval env lo
      let b ← gEval env hi
      genFor env fuel (b - a).toNat a sym body
    | .atEq e info => pure [Node.reloc e info]
    | .starEq e info => pure [Node.codePos e info]
    | .table path _ => do
      let st ← get
      let src ← liftOpt .os (alookup path st.fs.text)
      match mkTable (readLines src.toList) with
      | .error er => throw er
      | .ok t => modR fun r => r.modifyCur fun s => { s with table := some t }
      pure [Node.table]
    | .text s info => do
      let st ← get
      pure [Node.text s st.r.getTable info]
    | .ascii s _ => pure [Node.ascii s]
    | .data kind es info =>
      let w := if kind == "db" then 1 else if kind == "dw" then 2 else 3
      pure (es.map fun e => Node.data w e info)
    | .symbol name e _ => pure [Node.symbol name e]
    | .assign name e _ => do
      let v ← gEval env e
      modR fun r => r.addSymbol name v
      pure []
    | .label name _ => pure [Node.label name]
    | .opcode mode mn size operand index info =>
      if mode == .none then pure [Node.opcode (asciiLower mn) none mode none none info]
      else
        match operand with
        | none => throw .assertion
        | some e =>
          let idx := if mode == .direct_indexed || mode == .indirect_indexed || mode == .indirect_indexed_long
              || mode == .dp_or_sr_indirect_indexed || mode == .stack_indexed_indirect_indexed then index else none
          pure [Node.opcode (asciiLower mn) size mode idx (some e) info]
    | .incbin path _ => do
      let st ← get
      let content ← liftOpt .os (alookup path st.fs.bin)
      pure [Node.binary content (symbolBase path)]
    | .includeIps path e _ => do
      let delta ← gEval env e
      let st ← get
      let content ← liftOpt .os (alookup path st.fs.bin)
      match ipsReadInclude content delta with
      | .ok blocks => pure [Node.includeIps blocks]
      | .error er => throw er
    | .struct _ _ => throw .runtime

end

end A816
