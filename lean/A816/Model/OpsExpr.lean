import A816.Model.Expr
import A816.Spec.Expr
import A816.Gen.Tables
/-! Line-protocol handlers for L3 (expressions): model `evalt`, reference `spec.eval` / `spec.print`. -/
namespace A816.Ops
open A816

def genPrecTable : PrecTable := fun s => alookup s Gen.operatorPrecedence

def parseEnv (s : String) : Option (List (String × Look)) :=
  if s == "-" then some [] else
  (s.splitOn ",").foldr (fun item acc =>
    match acc, item.splitOn "=" with
    | some l, [k, v] =>
      if v == "!" then some ((k, Look.notInt) :: l)
      else match v.toInt? with
        | some n => some ((k, Look.int n) :: l)
        | none => none
    | _, _ => none) (some [])

def lookIn (env : List (String × Look)) (x : String) : Look :=
  match alookup x env with
  | some l => l
  | none => .undefined

def parseTok (w : String) : Option ENode :=
  if w == "(" then some .lparen
  else if w == ")" then some .rparen
  else if w.startsWith "N:" then some (.term .number (w.drop 2).toString)
  else if w.startsWith "I:" then some (.term .identifier (w.drop 2).toString)
  else if w.startsWith "O:" then some (.term .other (w.drop 2).toString)
  else if w.startsWith "B:" then some (.binop (w.drop 2).toString)
  else if w.startsWith "U:" then some (.unop (w.drop 2).toString)
  else none

def showTok : ENode → String
  | .term .number v => "N:" ++ v
  | .term .identifier v => "I:" ++ v
  | .term .other v => "O:" ++ v
  | .binop v => "B:" ++ v
  | .unop v => "U:" ++ v
  | .lparen => "("
  | .rparen => ")"

def showExcept : Except Err Int → String
  | .ok v => s!"ok {v}"
  | .error e => "err " ++ e.tag

/-! reference trees in prefix notation -/
open Spec in
def bopOfSym (s : String) : Option BOp :=
  [BOp.mul, .add, .sub, .shl, .shr, .band, .bor].find? (fun o => o.sym == s)

open Spec in
def literalOf (base : String) (digits : String) : Option Literal :=
  let b? : Option Base := if base == "dec" then some .dec else if base == "hex" then some .hex
    else if base == "bin" then some .bin else none
  match b? with
  | none => none
  | some b =>
    let ds := digits.toList.map fun c =>
      if '0' ≤ c ∧ c ≤ '9' then some (c.toNat - 48, false)
      else if 'a' ≤ c ∧ c ≤ 'f' then some (c.toNat - 87, false)
      else if 'A' ≤ c ∧ c ≤ 'F' then some (c.toNat - 55, true)
      else none
    if ds.all Option.isSome then some ⟨b, ds.filterMap id⟩ else none

open Spec in
def parseTree : Nat → List String → Option (Expr × List String)
  | 0, _ => none
  | _, [] => none
  | fuel+1, w :: rest =>
    match w.splitOn ":" with
    | ["num", base, digits] => (literalOf base digits).map (fun l => (Expr.num l, rest))
    | ["var", x] => some (Expr.var x, rest)
    | ["paren"] => (parseTree fuel rest).map (fun (e, r) => (Expr.paren e, r))
    | ["un", s] =>
      let o? : Option UOp := if s == "-" then some .neg else if s == "~" then some .inv else none
      match o?, parseTree fuel rest with
      | some o, some (e, r) => some (Expr.un o e, r)
      | _, _ => none
    | ["bin", s] =>
      match bopOfSym s, parseTree fuel rest with
      | some o, some (l, r1) =>
        match parseTree fuel r1 with
        | some (r, r2) => some (Expr.bin o l r, r2)
        | none => none
      | _, _ => none
    | _ => none

open Spec in
def exprWFb : Expr → Bool
  | .num l => !l.digits.isEmpty && l.digits.all (fun d => d.1 < l.base.radix)
  | .var _ => true
  | .paren e => exprWFb e
  | .un _ e => exprWFb e && e.level ≤ 1
  | .bin o l r => exprWFb l && exprWFb r && l.level ≤ o.level && r.level < o.level

open Spec in
def specPrint : Expr → List ENode
  | .num l => [.term .number (String.ofList l.render)]
  | .var x => [.term .identifier x]
  | .un o e => .unop o.sym :: specPrint e
  | .bin o l r => specPrint l ++ .binop o.sym :: specPrint r
  | .paren e => .lparen :: specPrint e ++ [.rparen]

def handleExpr (ws : List String) : Option String :=
  match ws with
  | "evalt" :: env :: toks =>
    match parseEnv env, toks.mapM parseTok with
    | some env, some ts => some (showExcept (evalTokens genPrecTable (lookIn env) ts))
    | _, _ => some "bad-op"
  | "sy" :: toks =>
    match toks.mapM parseTok with
    | some ts =>
      some (match shuntingYard genPrecTable ts with
        | .ok q => "ok " ++ " ".intercalate (q.map showTok)
        | .error e => "err " ++ e.tag)
    | none => some "bad-op"
  | "spec.eval" :: env :: tree =>
    match parseEnv env, parseTree (tree.length + 1) tree with
    | some env, some (e, []) =>
      let envf : String → Option Int := fun x => match lookIn env x with | .int v => some v | _ => none
      let r := match Spec.eval envf e with | some v => s!"some {v}" | none => "none"
      some (r ++ (if exprWFb e then " wf" else " notwf"))
    | _, _ => some "bad-op"
  | "spec.print" :: tree =>
    match parseTree (tree.length + 1) tree with
    | some (e, []) => some (" ".intercalate ((specPrint e).map showTok))
    | _ => some "bad-op"
  | ["evalnum", w] => some (match evalNumber w with | some v => s!"ok {v}" | none => "err")
  | ["invert", v] => (v.toInt?).map (fun v => match pyInvert v with | some r => s!"ok {r}" | none => "err") |>.orElse (fun _ => some "bad-op")
  | _ => none

end A816.Ops
