import A816.Model.Cpu
import A816.Spec.Instr
import A816.Spec.Supported
import A816.Gen.Tables
/-! Line-protocol handlers for L2 (instruction encoding): model `instr`, reference `spec.instr`. -/
namespace A816.Ops
open A816

def parseIdx (s : String) : Option (Option Idx) :=
  if s == "-" then some none else (Idx.ofName s).map some

/-- `operand,imm,bracket,inner,outer` e.g. `1,0,paren,x,-` -/
def parseSyntax (s : String) : Option Syntax :=
  match s.splitOn "," with
  | [op, imm, br, i, o] =>
    let br? : Option Bracket := if br == "none" then some .none else if br == "paren" then some .paren
      else if br == "square" then some .square else none
    match br?, parseIdx i, parseIdx o with
    | some b, some i, some o => some ⟨op == "1", imm == "1", b, i, o⟩
    | _, _, _ => none
  | _ => none

def showSyntax (s : Syntax) : String :=
  let b := match s.bracket with | .none => "none" | .paren => "paren" | .square => "square"
  let i := fun (x : Option Idx) => match x with | none => "-" | some i => i.name
  s!"{if s.operand then 1 else 0},{if s.imm then 1 else 0},{b},{i s.inner},{i s.outer}"

def parseSfx (s : String) : Option (Option Nat) :=
  if s == "-" then some none else match s.toNat? with | some n => some (some n) | none => none

def showEnc : Except Err (List Nat) → String
  | .ok bs => "ok " ++ hexOfBytes bs
  | .error e => "rej " ++ e.tag

open Spec in
/-- the property's statement for one instruction, evaluated on the reference side only -/
def specInstr (mn : String) (syn : Syntax) (sfx : Option Nat) (v : Int) : String :=
  if !syn.operand then
    match (shapeOf mn syn 0).bind (isaFor mn) with
    | some op => "ok " ++ hexOfBytes [op]
    | none => "undef"
  else if branches.contains mn && !syn.imm && syn.bracket == .none && syn.inner.isNone && syn.outer.isNone then "noclaim"
  else
    let w? : Option Nat := match sfx with
      | some w => some w
      | none => if v < 0 then none else if v < 256 then some 1 else if v < 65536 then some 2
                else if v < 16777216 then some 3 else some 0
    match w? with
    | none => "noclaim"
    | some 0 => "undef"
    | some w =>
      match (shapeOf mn syn w).bind (isaFor mn) with
      | none => "undef"
      | some op =>
        if w == 3 && (v < 0 || v ≥ 16777216) then "noclaim"
        else "ok " ++ hexOfBytes (op :: leBytes w (v % ((256 ^ w : Nat) : Int)).toNat)

def handleCpu (ws : List String) : Option String :=
  match ws with
  | ["instr", mn, syn, sfx, v] =>
    match parseSyntax syn, parseSfx sfx, v.toInt? with
    | some syn, some sfx, some v => some (showEnc (encodeInstr Gen.opcodeTable Gen.indexMap mn syn sfx v))
    | _, _, _ => some "bad-op"
  | ["spec.instr", mn, syn, sfx, v] =>
    match parseSyntax syn, parseSfx sfx, v.toInt? with
    | some syn, some sfx, some v => some (specInstr mn syn sfx v)
    | _, _, _ => some "bad-op"
  | ["spec.supported"] =>
    some (";".intercalate (Spec.supported.map fun s =>
      s!"{s.mn} {showSyntax s.syn} {s.w} {s.op} {if s.relative then 1 else 0}"))
  | ["spec.isa", mn, sh] =>
    let shapes : List (String × Spec.Shape) := [("imp", .imp), ("acc", .acc), ("imm", .imm), ("dp", .dp), ("abs", .abs),
      ("long", .long), ("dpx", .dpx), ("absx", .absx), ("longx", .longx), ("dpy", .dpy), ("absy", .absy), ("sr", .sr),
      ("ind", .ind), ("indy", .indy), ("indl", .indl), ("indly", .indly), ("indx", .indx), ("sry", .sry),
      ("absind", .absind), ("absindx", .absindx), ("absindl", .absindl), ("rel", .rel), ("rell", .rell), ("mv", .mv)]
    match alookup sh shapes with
    | some s => some (match Spec.isa mn s with | some b => s!"some {b}" | none => "none")
    | none => some "bad-op"
  | ["mnemonics"] => some (" ".intercalate Gen.mnemonics)
  | ["opsize", v] => (v.toInt?).map (fun v => toString (operandSize v)) |>.orElse (fun _ => some "bad-op")
  | _ => none

end A816.Ops
