import A816.Model.Ast
/-!
# L6 — parser (`a816/parse/parser.py`, `a816/parse/parser_states.py`)

Statement-by-statement model of every parser state.  All mutually recursive functions take one fuel
argument (structural); the top level supplies `2·|tokens| + 16`, and running out of fuel is
`Err.outOfFuel` (the Python parser would not terminate — or would exceed the recursion limit).
`.include` scans and parses the included file (virtual file system `FS`), registering a new `File`.
-/
namespace A816

structure PState where
  toks : Array Tok
  pos : Nat := 0
  fs : FS
  deriving Inhabited

abbrev PM := StateT PState (Except Err)

structure ParseCfg where
  scan : ScanCfg
  indexMap : List (AddrMode × AddrMode)

/-- `Token(TokenType.EOF, "")`: what `current()` returns past the end (it has no position) -/
def eofTok : Tok := { ty := .EOF, val := "", hasPos := false }

def pCurrent : PM Tok := do let s ← get; pure (s.toks.getD s.pos eofTok)
def pPeek : PM Tok := do let s ← get; pure (s.toks.getD (s.pos + 1) eofTok)
def pNext : PM Tok := do
  let t ← pCurrent
  modify fun s => { s with pos := s.pos + 1 }
  pure t
def pBackup : PM Unit := modify fun s => { s with pos := s.pos - 1 }

def syntaxErr (t : Tok) : Err :=
  if t.hasPos then .parseAt t.file t.line t.col t.ty.name t.val.length else .parse (-1) (-1)

def pFail {α} (t : Tok) : PM α := throw (syntaxErr t)

def expectTok (t : Tok) (ty : TokTy) : PM Unit := if t.ty == ty then pure () else pFail t

def indexOfTok (t : Tok) : Option Idx := Idx.ofName (asciiLower t.val)

/-- Python `ast.literal_eval` on a NUMBER token (`.map` arguments); `none` = SyntaxError/ValueError -/
def literalEval (s : String) : Option Int :=
  let cs := s.toList
  if cs.take 2 = ['0', 'x'] then (if (cs.drop 2).isEmpty then none else (parseDigits 16 (cs.drop 2) 0).map Int.ofNat)
  else if cs.take 2 = ['0', 'b'] then (if (cs.drop 2).isEmpty then none else (parseDigits 2 (cs.drop 2) 0).map Int.ofNat)
  else if cs.take 2 = ['0', 'o'] then (if (cs.drop 2).isEmpty then none else (parseDigits 8 (cs.drop 2) 0).map Int.ofNat)
  else if cs.isEmpty then none
  else if cs.head? = some '0' && !(cs.all (· == '0')) then none     -- leading zeros are not permitted
  else (parseDigits 10 cs 0).map Int.ofNat

def mapKeys : List String := ["identifier", "writable", "bank_range", "addr_range", "mask", "mirror_bank_range"]

/-- `string.value[1:-1]` -/
def stripQuotes (s : String) : String :=
  let cs := s.toList
  String.ofList ((cs.drop 1).take (cs.length - 2))

mutual

/-- `_parse_expression` -/
def parseExprNodes (cfg : ParseCfg) : Nat → PM (List ENode)
  | 0 => throw .outOfFuel
  | fuel+1 => do
    let cur ← pNext
    let toks ←
      if cur.ty == .LPAREN then do
        let inner ← parseExprNodes cfg fuel
        let c ← pCurrent
        expectTok c .RPAREN
        let _ ← pNext
        pure (ENode.lparen :: inner ++ [ENode.rparen])
      else if cur.ty == .NUMBER then pure [ENode.term .number cur.val]
      else if cur.ty == .IDENTIFIER then pure [ENode.term .identifier cur.val]
      else if cur.ty == .BOOLEAN then pure [ENode.term .other cur.val]
      else if cur.ty == .OPERATOR && (cur.val == "-" || cur.val == "~") then do
        let rest ← parseExprNodes cfg fuel
        pure (ENode.unop cur.val :: rest)
      else pFail cur
    let op ← pCurrent
    if op.ty == .OPERATOR then do
      let _ ← pNext
      let rest ← parseExprNodes cfg fuel
      pure (toks ++ ENode.binop op.val :: rest)
    else pure toks

/-- `parse_expression` (the node's `file_info` is the first token consumed) -/
def parseExpr (cfg : ParseCfg) : Nat → PM PExpr
  | 0 => throw .outOfFuel
  | fuel+1 => do
    let first ← pCurrent
    let nodes ← parseExprNodes cfg fuel
    pure ⟨nodes, first⟩

/-- `parse_block` -/
def parseBlock (cfg : ParseCfg) : Nat → PM (List Ast)
  | 0 => throw .outOfFuel
  | fuel+1 => do
    let c ← pCurrent
    if c.ty == .EOF || c.ty == .RBRACE then do
      let t ← pNext
      expectTok t .RBRACE
      pure []
    else do
      let st ← parseDecl cfg fuel
      let rest ← parseBlock cfg fuel
      pure (match st with | some a => a :: rest | none => rest)

/-- `parse_expression_list_inner` -/
def parseExprListInner (cfg : ParseCfg) : Nat → PM (List MArg)
  | 0 => throw .outOfFuel
  | fuel+1 => do
    let c ← pCurrent
    if c.ty == .RPAREN then pure []
    else do
      let item ←
        if c.ty == .LBRACE then do
          let _ ← pNext
          let b ← parseBlock cfg fuel
          pure (MArg.block b c)
        else do
          let e ← parseExpr cfg fuel
          pure (MArg.expr e)
      let c2 ← pCurrent
      if c2.ty == .COMMA then do
        let _ ← pNext
        let rest ← parseExprListInner cfg fuel
        pure (item :: rest)
      else pure [item]

/-- the `while True` loop of `parse_macro_definition_args` -/
def parseMacroArgsLoop (cfg : ParseCfg) : Nat → PM (List String)
  | 0 => throw .outOfFuel
  | fuel+1 => do
    let t ← pNext
    if t.ty == .RPAREN then do pBackup; pure []
    else if t.ty == .COMMA then parseMacroArgsLoop cfg fuel
    else if t.ty == .IDENTIFIER then do
      let rest ← parseMacroArgsLoop cfg fuel
      pure (t.val :: rest)
    else pFail t

/-- the `while p.current().type == IDENTIFIER` loop of `parse_map` -/
def parseMapLoop (cfg : ParseCfg) : Nat → PM (List (String × MapVal))
  | 0 => throw .outOfFuel
  | fuel+1 => do
    let c ← pCurrent
    if c.ty != .IDENTIFIER then pure []
    else do
      let ident ← pNext
      if !(mapKeys.contains ident.val) then pFail ident
      else do
        let eq ← pNext
        expectTok eq .EQUAL
        let n1 ← pNext
        expectTok n1 .NUMBER
        let c2 ← pCurrent
        let v ←
          if c2.ty == .COMMA then do
            let _ ← pNext
            let n2 ← pNext
            expectTok n2 .NUMBER
            match literalEval n1.val, literalEval n2.val with
            | some a, some b => pure (MapVal.pair a b)
            | _, _ => throw .other
          else
            match literalEval n1.val with
            | some a => pure (MapVal.num a)
            | none => throw .other
        let rest ← parseMapLoop cfg fuel
        pure ((ident.val, v) :: rest)

/-- the field loop of `parse_struct` (no `TYPE` token is ever produced, so a field is always an error) -/
def parseStructLoop (cfg : ParseCfg) : Nat → PM Unit
  | 0 => throw .outOfFuel
  | fuel+1 => do
    let c ← pCurrent
    if c.ty == .EOF then pure ()
    else if c.ty == .COMMENT then do let _ ← pNext; parseStructLoop cfg fuel
    else if c.ty == .RBRACE then pure ()
    else if c.ty == .TYPE then do
      let _ ← pNext
      let f ← pCurrent
      expectTok f .IDENTIFIER
      let _ ← pNext
      parseStructLoop cfg fuel
    else pFail c

/-- `parse_operand_and_addressing` -/
def parseOperand (cfg : ParseCfg) : Nat → AddrMode → Tok → PM (AddrMode × Option Idx × Option PExpr)
  | 0, _, _ => throw .outOfFuel
  | fuel+1, mode, opcode => do
    let c ← pCurrent
    if c.ty == .SHARP then do
      let _ ← pNext
      let c2 ← pCurrent
      if c2.ty == .EOF then pFail c2
      else do
        let e ← parseExpr cfg fuel
        pure (.immediate, none, some e)
    else if c.ty == .LPAREN then do
      let saved := (← get).pos
      let _ ← pNext
      let e ← parseExpr cfg fuel
      let c2 ← pCurrent
      let (mode1, inner) ←
        if c2.ty == .ADDRESSING_MODE_INDEX then do
          let _ ← pNext
          pure (AddrMode.dp_or_sr_indirect_indexed, indexOfTok c2)
        else pure (AddrMode.indirect, none)
      let c3 ← pCurrent
      expectTok c3 .RPAREN
      let pk ← pPeek
      if pk.ty == .OPERATOR then do
        -- `raise SyntaxError()` → re-parse the whole thing as one expression
        modify fun s => { s with pos := saved }
        let e2 ← parseExpr cfg fuel
        pure (.direct, inner, some e2)
      else do
        let _ ← pNext
        pure (mode1, inner, some e)
    else if c.ty == .LBRAKET then do
      let _ ← pNext
      let e ← parseExpr cfg fuel
      let t ← pNext
      expectTok t .RBRAKET
      pure (.indirect_long, none, some e)
    else if opcode.ty == .OPCODE then do
      let e ← parseExpr cfg fuel
      pure (mode, none, some e)
    else pure (mode, none, none)

/-- `parse_opcode` -/
def parseOpcode (cfg : ParseCfg) : Nat → PM Ast
  | 0 => throw .outOfFuel
  | fuel+1 => do
    let opcode ← pNext
    let mode0 : AddrMode := if opcode.ty == .OPCODE_NAKED then .none else .direct
    let c ← pCurrent
    let size : Option String ←
      if c.ty == .OPCODE_SIZE then do let _ ← pNext; pure (some (asciiLower c.val)) else pure none
    let (mode1, inner, operand) ← parseOperand cfg fuel mode0 opcode
    let c2 ← pCurrent
    let (mode2, index) ←
      if c2.ty == .ADDRESSING_MODE_INDEX then do
        let _ ← pNext
        let idx := indexOfTok c2
        if inner.isSome && !(inner == some Idx.s && idx == some Idx.y) then pFail c2
        else
          match alookup mode1 cfg.indexMap with
          | none => throw .key
          | some m => pure (m, idx)
      else pure (mode1, none)
    let vsize : Option Nat := match size with
      | some "b" => some 1 | some "w" => some 2 | some "l" => some 3 | _ => none
    pure (.opcode mode2 opcode.val vsize operand (match index with | some i => some i | none => inner) opcode)

/-- `parse_keyword` -/
def parseKeyword (cfg : ParseCfg) : Nat → PM Ast
  | 0 => throw .outOfFuel
  | fuel+1 => do
    let kw ← pNext
    let quoted : PM String := do
      let t ← pNext
      expectTok t .QUOTED_STRING
      pure (stripQuotes t.val)
    let dataOf (kind : String) : PM Ast := do
      let items ← parseExprListInner cfg fuel
      let es ← items.mapM fun (i : MArg) => match i with
        | .expr e => pure e
        | .block _ _ => (throw .assertion : PM PExpr)
      pure (.data kind es kw)
    if kw.val == "scope" then do
      let cur ← pCurrent
      let name ← pNext
      expectTok name .IDENTIFIER
      let lb ← pNext
      expectTok lb .LBRACE
      let body ← parseBlock cfg fuel
      pure (.scope name.val body cur)
    else if kw.val == "ascii" then do let s ← quoted; pure (.ascii s kw)
    else if kw.val == "text" then do let s ← quoted; pure (.text s kw)
    else if kw.val == "dw" then dataOf "dw"
    else if kw.val == "dl" then dataOf "dl"
    else if kw.val == "db" then dataOf "db"
    else if kw.val == "pointer" then dataOf "pointer"
    else if kw.val == "include" then do
      let path ← quoted
      let st ← get
      match alookup path st.fs.text with
      | none => throw .os
      | some src =>
        -- the `File` of an included source: index of its path in the file system (0 is the main source)
        let fileId := 1 + (st.fs.text.findIdx fun (n, _) => n == path)
        let r := scan cfg.scan .initial fileId src.toList
        match r.error with
        | some (.scan msg l c) => throw (.scanIn fileId msg l c)
        | some e => throw e
        | none =>
          -- a fresh Parser on the included file's tokens
          set { st with toks := r.toks, pos := 0 }
          let sub ← parseProgram cfg fuel
          let st2 ← get
          set { st2 with toks := st.toks, pos := st.pos }
          pure (.block sub kw)
    else if kw.val == "include_ips" then do
      let cur ← pCurrent
      let path ← quoted
      let t ← pNext
      expectTok t .COMMA
      let e ← parseExpr cfg fuel
      pure (.includeIps path e cur)
    else if kw.val == "incbin" then do let s ← quoted; let c ← pCurrent; pure (.incbin s c)
    else if kw.val == "table" then do let s ← quoted; let c ← pCurrent; pure (.table s c)
    else if kw.val == "macro" then do
      let name ← pNext
      expectTok name .IDENTIFIER
      let lp ← pNext
      expectTok lp .LPAREN
      let first ← pNext
      let params ←
        if first.ty == .RPAREN then do pBackup; pure []
        else do
          expectTok first .IDENTIFIER
          let rest ← parseMacroArgsLoop cfg fuel
          pure (first.val :: rest)
      let rp ← pNext
      expectTok rp .RPAREN
      let lb ← pNext
      expectTok lb .LBRACE
      let body ← parseBlock cfg fuel
      pure (.macro name.val params body name)
    else if kw.val == "map" then do
      let first ← pCurrent
      expectTok first .IDENTIFIER
      let args ← parseMapLoop cfg fuel
      pure (.map args first)
    else if kw.val == "if" then do
      let cur ← pCurrent
      let cond ← parseExpr cfg fuel
      let lb ← pNext
      expectTok lb .LBRACE
      let body ← parseBlock cfg fuel
      let c ← pCurrent
      if c.val == "else" then do
        let _ ← pNext
        let lb2 ← pNext
        expectTok lb2 .LBRACE
        let eb ← parseBlock cfg fuel
        pure (.ifNode cond body (some eb) cur)
      else pure (.ifNode cond body none cur)
    else if kw.val == "for" then do
      let cur ← pCurrent
      let v ← pNext
      expectTok v .IDENTIFIER
      let a ← pNext
      expectTok a .ASSIGN
      let lo ← parseExpr cfg fuel
      let cm ← pNext
      expectTok cm .COMMA
      let hi ← parseExpr cfg fuel
      let lb ← pNext
      expectTok lb .LBRACE
      let body ← parseBlock cfg fuel
      pure (.forNode v.val lo hi body cur)
    else if kw.val == "struct" then do
      let cur ← pCurrent
      let v ← pNext
      expectTok v .IDENTIFIER
      let lb ← pNext
      expectTok lb .LBRACE
      parseStructLoop cfg fuel
      let rb ← pNext
      expectTok rb .RBRACE
      pure (.struct v.val cur)
    else pFail kw

/-- `parse_decl` (`none` = a comment) -/
def parseDecl (cfg : ParseCfg) : Nat → PM (Option Ast)
  | 0 => throw .outOfFuel
  | fuel+1 => do
    let cur ← pNext
    if cur.ty == .COMMENT then pure none
    else if cur.ty == .DOUBLE_LBRACE then do
      let c ← pCurrent
      let ident ← pNext
      expectTok ident .IDENTIFIER
      let rb ← pNext
      expectTok rb .DOUBLE_RBRACE
      pure (some (.codeLookup ident.val c))
    else if cur.ty == .OPCODE || cur.ty == .OPCODE_NAKED then do
      pBackup
      let a ← parseOpcode cfg fuel
      pure (some a)
    else if cur.ty == .KEYWORD then do
      pBackup
      let a ← parseKeyword cfg fuel
      pure (some a)
    else if cur.ty == .IDENTIFIER then do
      pBackup
      let pk ← pPeek
      if pk.ty == .LPAREN then do
        let ident ← pNext
        let lp ← pNext
        expectTok lp .LPAREN
        let args ← parseExprListInner cfg fuel
        let rp ← pNext
        expectTok rp .RPAREN
        pure (some (.macroApply ident.val args ident))
      else do
        let c ← pCurrent
        let sym ← pNext
        let op ← pNext
        if op.ty == .EQUAL then do
          let e ← parseExpr cfg fuel
          pure (some (.symbol sym.val e c))
        else if op.ty == .ASSIGN then do
          let e ← parseExpr cfg fuel
          pure (some (.assign sym.val e c))
        else pFail op
    else if cur.ty == .LABEL then pure (some (.label cur.val cur))
    else if cur.ty == .LBRACE then do
      let b ← parseBlock cfg fuel
      pure (some (.compound b cur))
    else if cur.ty == .STAR_EQ then do
      let c ← pCurrent
      let e ← parseExpr cfg fuel
      pure (some (.starEq e c))
    else if cur.ty == .AT_EQ then do
      let c ← pCurrent
      let e ← parseExpr cfg fuel
      pure (some (.atEq e c))
    else pFail cur

/-- `parse_initial` -/
def parseProgram (cfg : ParseCfg) : Nat → PM (List Ast)
  | 0 => throw .outOfFuel
  | fuel+1 => do
    let c ← pCurrent
    if c.ty == .EOF then pure []
    else do
      let st ← parseDecl cfg fuel
      let rest ← parseProgram cfg fuel
      pure (match st with | some a => a :: rest | none => rest)

end

end A816
