import A816.Model.Mapping
import A816.Model.Legacy
import A816.Gen.Tables
import A816.Spec.RomMaps
/-!
Line-protocol handlers for the arithmetic layers (L0, L1, L10).
One op per line, one canonical answer per line; malformed lines answer `bad-op`.
-/
namespace A816.Ops
open A816

def parseInt (s : String) : Option Int := s.toInt?
def parseNat (s : String) : Option Nat := s.toNat?

def showOptInt : Option Int → String
  | none => "none"
  | some v => s!"some {v}"

def showOptInt' : Option (Option Nat) → String
  | none => "err"
  | some none => "none"
  | some (some v) => s!"some {v}"

def romOfName : String → Option RomType
  | "low_rom" => some .low_rom | "low_rom_2" => some .low_rom_2 | "high_rom" => some .high_rom
  | _ => none

/-- bus descriptor: `low`, `high`, or `user:` followed by `;`-separated map directives
    `ident,lo,hi,mask,ram(0/1),mlo,mhi` (`mlo = -` when there is no mirror) or `u,ident` (`Bus.unmap`), applied in order to an empty bus. -/
def busOfDesc (d : String) : Option BusCfg :=
  if d == "low" then some Gen.lowRomBus
  else if d == "high" then some Gen.highRomBus
  else if d.startsWith "user:" then
    let body := (d.drop 5).toString
    let parts := if body.isEmpty then [] else body.splitOn ";"
    parts.foldl (fun acc p =>
      match acc with
      | none => none
      | some b =>
        match p.splitOn "," with
        | ["u", ident] => b.unmap ident
        | [ident, lo, hi, mask, ram, mlo, mhi] =>
          match lo.toNat?, hi.toNat?, mask.toNat? with
          | some lo, some hi, some mask =>
            let mirror := match mlo.toNat?, mhi.toNat? with
              | some a, some c => some (a, c)
              | _, _ => none
            b.map ident lo hi mask (ram == "1") mirror
          | _, _, _ => none
        | _ => none) (some BusCfg.empty)
  else none

def physOp (bus : BusCfg) (a : Int) : String :=
  match busPhys bus a with
  | none => "err"
  | some r => showOptInt r

def addOp (bus : BusCfg) (a : Int) (n : Nat) : String :=
  match busAdd bus a n with
  | none => "err"
  | some r => s!"ok {r}"

/-- polynomial rolling hash over integer result codes (mod 2^61-1) used by the range ops -/
def hashStep (h code : Nat) : Nat := (h * 1000003 + code + 1) % 2305843009213693951

/-- result codes: 0 rejected, 1 RAM/none, 4+2v offset v ≥ 0, 5+2|v| negative -/
def physCode : Option (Option Int) → Nat
  | none => 0
  | some none => 1
  | some (some v) => if v ≥ 0 then 4 + 2 * v.toNat else 5 + 2 * v.natAbs
def addCode : Option Nat → Nat
  | none => 0
  | some v => 1 + v

def physRange (bus : BusCfg) (lo hi : Nat) : Nat := Id.run do
  let mut h := 0
  for a in [lo:hi] do
    h := hashStep h (physCode (busPhys bus a))
  return h

def addRange (bus : BusCfg) (lo hi n : Nat) : Nat := Id.run do
  let mut h := 0
  for a in [lo:hi] do
    h := hashStep h (addCode (busAdd bus a n))
  return h

def specBanks : String → Option (Nat → Option Spec.BankKind)
  | "low" => some Spec.loRomBank
  | "high" => some Spec.hiRomBank
  | _ => none

def specPhysRange (banks : Nat → Option Spec.BankKind) (lo hi : Nat) : Nat := Id.run do
  let mut h := 0
  for a in [lo:hi] do
    h := hashStep h (physCode ((Spec.phys banks a).map (·.map Int.ofNat)))
  return h

def showBank : Option Spec.BankKind → String
  | none => "none"
  | some .ram => "ram"
  | some (.rom r) => s!"rom {r.first} {r.last} {r.size}"

def legOne (kind : String) (mode : Option RomType) (v : Nat) : String :=
  match kind, mode with
  | "r2s", some m => toString (romToSnes v m)
  | "s2r", _ => toString (snesToRom v)
  | _, _ => "bad-op"

def legCode (kind : String) (mode : Option RomType) (v : Nat) : Nat :=
  match kind, mode with
  | "r2s", some m => romToSnes v m
  | "s2r", _ => snesToRom v
  | _, _ => 0

def legRange (kind : String) (mode : Option RomType) (lo hi : Nat) : Nat := Id.run do
  let mut h := 0
  for a in [lo:hi] do
    h := hashStep h (legCode kind mode a)
  return h

def showBytes : Option (List Nat) → String
  | none => "err"
  | some bs => "ok " ++ hexOfBytes bs

def handleBasic (ws : List String) : Option String :=
  match ws with
  | ["phys", bus, a] =>
    match busOfDesc bus, parseInt a with
    | some b, some a => some (physOp b a)
    | _, _ => some "bad-op"
  | ["add", bus, a, n] =>
    match busOfDesc bus, parseInt a, parseNat n with
    | some b, some a, some n => some (addOp b a n)
    | _, _, _ => some "bad-op"
  | ["physrange", bus, lo, hi] =>
    match busOfDesc bus, parseNat lo, parseNat hi with
    | some b, some lo, some hi => some (toString (physRange b lo hi))
    | _, _, _ => some "bad-op"
  | ["addrange", bus, lo, hi, n] =>
    match busOfDesc bus, parseNat lo, parseNat hi, parseNat n with
    | some b, some lo, some hi, some n => some (toString (addRange b lo hi n))
    | _, _, _, _ => some "bad-op"
  | ["spec.phys", bus, a] =>
    match specBanks bus, parseInt a with
    | some b, some a => some (showOptInt' (Spec.phys b a))
    | _, _ => some "bad-op"
  | ["spec.physrange", bus, lo, hi] =>
    match specBanks bus, parseNat lo, parseNat hi with
    | some b, some lo, some hi => some (toString (specPhysRange b lo hi))
    | _, _, _ => some "bad-op"
  | ["spec.bank", bus, b] =>
    match specBanks bus, parseNat b with
    | some f, some b => some (showBank (f b))
    | _, _ => some "bad-op"
  | ["spec.address", first, last, size, p] =>
    match parseNat first, parseNat last, parseNat size, parseNat p with
    | some f, some l, some sz, some p => some (toString (Spec.address ⟨f, l, sz⟩ p))
    | _, _, _, _ => some "bad-op"
  | ["spec.addressrange", first, last, size, lo, hi] =>
    match parseNat first, parseNat last, parseNat size, parseNat lo, parseNat hi with
    | some f, some l, some sz, some lo, some hi => some (toString (Id.run do
        let mut h := 0
        for p in [lo:hi] do
          h := hashStep h (Spec.address ⟨f, l, sz⟩ p)
        return h))
    | _, _, _, _, _ => some "bad-op"
  | ["busok", bus] => some (match busOfDesc bus with | some _ => "ok" | none => "err")
  | ["leg", "r2s", mode, v] =>
    match romOfName mode, parseNat v with
    | some m, some v => some (legOne "r2s" (some m) v)
    | _, _ => some "bad-op"
  | ["leg", "s2r", v] =>
    match parseNat v with
    | some v => some (legOne "s2r" none v)
    | _ => some "bad-op"
  | ["legrange", "r2s", mode, lo, hi] =>
    match romOfName mode, parseNat lo, parseNat hi with
    | some m, some lo, some hi => some (toString (legRange "r2s" (some m) lo hi))
    | _, _, _ => some "bad-op"
  | ["legrange", "s2r", lo, hi] =>
    match parseNat lo, parseNat hi with
    | some lo, some hi => some (toString (legRange "s2r" none lo hi))
    | _, _ => some "bad-op"
  | ["leg", "longptr", base, p] =>
    match parseNat base, parseNat p with
    | some b, some p => some (showBytes (longLowRomPointer b p))
    | _, _ => some "bad-op"
  | ["leg", "rel16", base, b0, b1] =>
    match parseInt base, parseNat b0, parseNat b1 with
    | some b, some b0, some b1 => some (match baseRelative16 b [b0, b1] with | some v => s!"ok {v}" | none => "err")
    | _, _, _ => some "bad-op"
  | ["pack", "B", v] => (parseInt v).map (fun v => showBytes (packB v)) |>.orElse (fun _ => some "bad-op")
  | ["pack", "b", v] => (parseInt v).map (fun v => showBytes (packSb v)) |>.orElse (fun _ => some "bad-op")
  | ["pack", "<H", v] => (parseInt v).map (fun v => showBytes (packHle v)) |>.orElse (fun _ => some "bad-op")
  | ["pack", ">H", v] => (parseInt v).map (fun v => showBytes (packHbe v)) |>.orElse (fun _ => some "bad-op")
  | ["pack", "<HB", a, b] =>
    match parseInt a, parseInt b with
    | some a, some b => some (showBytes (packHBle a b))
    | _, _ => some "bad-op"
  | ["pack", ">BH", a, b] =>
    match parseInt a, parseInt b with
    | some a, some b => some (showBytes (packBHbe a b))
    | _, _ => some "bad-op"
  | ["hexlen", v] => (parseInt v).map (fun v => toString (pyHexLenMinus2 v)) |>.orElse (fun _ => some "bad-op")
  | ["land", a, b] =>
    match parseInt a, parseInt b with
    | some a, some b => some (toString (intLand a b))
    | _, _ => some "bad-op"
  | ["lor", a, b] =>
    match parseInt a, parseInt b with
    | some a, some b => some (toString (intLor a b))
    | _, _ => some "bad-op"
  | _ => none

end A816.Ops
