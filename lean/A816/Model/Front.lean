import A816.Model.Program
/-!
# L8 — front ends as decision logic (`program.py: assemble_with_emitter / assemble / assemble_as_patch`,
`cli.py`) over an abstract core (the in-memory assembler)

The OS layer (argparse, files, process exit, logging) is not modelled; what *is* modelled is which
status each entry point derives from each outcome class of the core, which mapping / writer / defines
the command line selects, and the file formats as functions of the blocks.
-/
namespace A816

/-- what the core (`assemble_string_with_emitter`) does with a source -/
inductive CoreClass
  | ok            -- returned None
  | errorString   -- returned an error message (lexical / syntax error)
  | nodeError     -- raised NodeError
  | runtimeError  -- raised RuntimeError
  | otherExc      -- raised anything else (KeyError, struct.error, OSError, SymbolNotDefined, …)
  deriving DecidableEq, Repr, Inhabited

def coreClassOf : Outcome → CoreClass
  | .ok _ _ _ _ => .ok
  | .errorString _ _ _ _ _ => .errorString
  | .raised (.node _ _) => .nodeError
  | .raised (.nodeAt _ _ _) => .nodeError
  | .raised .runtime => .runtimeError
  | .raised _ => .otherExc

inductive Entry
  | stringApi     -- Program.assemble_string_with_emitter
  | assemble      -- Program.assemble(file, sfc)
  | asPatch       -- Program.assemble_as_patch(file, ips, …)
  | cli           -- x816 …
  deriving DecidableEq, Repr, Inhabited

/-- what reaches the caller -/
inductive Reported
  | none_                    -- the string API returned None
  | message                  -- the string API returned an error message
  | status (code : Int) (announcedSuccess : Bool)   -- file APIs: return value; CLI: exit status
  | raised                   -- an exception propagates (CLI: traceback, exit status 1)
  deriving DecidableEq, Repr, Inhabited

/-- `assemble_with_emitter` (after the F14 repair) -/
def withEmitter : CoreClass → Reported
  | .ok => .status 0 true
  | .errorString => .status (-1) false
  | .nodeError => .status (-1) false
  | .runtimeError => .status (-1) false
  | .otherExc => .raised

def report : Entry → CoreClass → Reported
  | .stringApi, .ok => .none_
  | .stringApi, .errorString => .message
  | .stringApi, _ => .raised
  | .assemble, c => withEmitter c
  | .asPatch, c => withEmitter c
  | .cli, c =>
    match withEmitter c with
    | .status code a => .status (code % 256) a      -- sys.exit(-1) is exit status 255
    | .raised => .status 1 false                    -- uncaught exception: traceback, status 1
    | r => r

/-- does the caller see success? -/
def isSuccess : Reported → Bool
  | .none_ => true
  | .status 0 _ => true
  | _ => false

def announces : Reported → Bool
  | .status _ a => a
  | _ => false

/-! ### command line → plan -/

structure CliArgs where
  format : String := "ips"
  mapping : String := "low"
  copier : Bool := false
  defines : List (String × Int) := []
  deriving Repr, Inhabited

structure Plan where
  sfc : Bool
  rom : Option RomType        -- none: unknown mapping name (KeyError)
  copier : Bool
  defines : List (String × Int)
  deriving Repr, Inhabited, DecidableEq

def romOfMapping : String → Option RomType
  | "low" => some .low_rom | "low2" => some .low_rom_2 | "high" => some .high_rom | _ => none

/-- `cli_main` after the F12 repairs: `-f ips` selects the IPS writer (with `--copier-header`), anything else
    the SFC writer (which ignores the copier flag); `-m` always selects the mapping; `-D` binds integers -/
def planOf (a : CliArgs) : Plan :=
  { sfc := a.format != "ips", rom := romOfMapping a.mapping, copier := a.copier && a.format == "ips", defines := a.defines }

/-- the flat SFC image of a write sequence: later writes win, gaps are zero, length = furthest extent -/
def sfcImage (blocks : List (Int × List Nat)) : List Nat :=
  let extent := blocks.foldl (fun m (a, d) => max m (a.toNat + d.length)) 0
  (List.range extent).map fun k =>
    match (blocks.reverse.find? fun (a, d) => a.toNat ≤ k ∧ k < a.toNat + d.length) with
    | some (a, d) => d.getD (k - a.toNat) 0
    | none => 0

/-- one line of the exported symbol file: `f"{bank:2x}:{offset:4x} {name}"` -/
def hexPad (w n : Nat) : String :=
  let s := String.ofList (Nat.toDigits 16 n)
  String.ofList (List.replicate (w - s.length) ' ') ++ s

def symbolLine (name : String) (v : Int) : String :=
  hexPad 2 ((v / 65536) % 256).toNat ++ ":" ++ hexPad 4 (v % 65536).toNat ++ " " ++ name

def symbolFile (labels : List (String × Int)) : String :=
  "[labels]\n" ++ String.join (labels.map fun (n, v) => symbolLine n v ++ "\n")

end A816
