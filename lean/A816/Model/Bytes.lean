import A816.PyInt
/-!
# L0 — bytes: `struct.pack` formats used by a816, Python-int bit operations

Bytes are `Nat`s below 256 (kept as `Nat` so that `omega` can reason about them).
`none` = `struct.error`.
-/
namespace A816

/-- Python `v & (2^k - 1)` on an unbounded int: Euclidean remainder. -/
def pyAndMask (v : Int) (m : Nat) : Nat := (v % (m : Int)).toNat
/-- Python `v >> k`: floor division by `2^k`. -/
def pyShr (v : Int) (k : Nat) : Int := v / ((2 ^ k : Nat) : Int)

/-- `struct.pack("B", v)` -/
def packB (v : Int) : Option (List Nat) :=
  if 0 ≤ v ∧ v ≤ 255 then some [v.toNat] else none
/-- `struct.pack("b", v)` (two's complement byte) -/
def packSb (v : Int) : Option (List Nat) :=
  if -128 ≤ v ∧ v ≤ 127 then some [(v % 256).toNat] else none
/-- `struct.pack("<H", v)` -/
def packHle (v : Int) : Option (List Nat) :=
  if 0 ≤ v ∧ v ≤ 65535 then some [v.toNat % 256, v.toNat / 256] else none
/-- `struct.pack(">H", v)` -/
def packHbe (v : Int) : Option (List Nat) :=
  if 0 ≤ v ∧ v ≤ 65535 then some [v.toNat / 256, v.toNat % 256] else none
/-- `struct.pack("<HB", a, b)` -/
def packHBle (a b : Int) : Option (List Nat) :=
  match packHle a, packB b with
  | some x, some y => some (x ++ y)
  | _, _ => none
/-- `struct.pack(">BH", a, b)` -/
def packBHbe (a b : Int) : Option (List Nat) :=
  match packB a, packHbe b with
  | some x, some y => some (x ++ y)
  | _, _ => none

/-- little-endian bytes of `v mod 256^w` (the reference the properties speak about) -/
def leBytes : Nat → Nat → List Nat
  | 0, _ => []
  | w+1, v => (v % 256) :: leBytes w (v / 256)

def decodeLE : List Nat → Nat
  | [] => 0
  | b :: bs => b + 256 * decodeLE bs

/-- number of hex digits of `|v|`, plus one for the sign: `len(hex(v)) - 2` -/
def hexDigitsAux : Nat → Nat → Nat
  | 0, _ => 1
  | fuel+1, v => if v < 16 then 1 else 1 + hexDigitsAux fuel (v / 16)
def hexDigits (v : Nat) : Nat := hexDigitsAux v v
def pyHexLenMinus2 (v : Int) : Nat := if v < 0 then hexDigits v.natAbs + 1 else hexDigits v.toNat

def hexDigitChar (n : Nat) : Char :=
  if n < 10 then Char.ofNat (48 + n) else Char.ofNat (87 + n)
def hexByte (b : Nat) : String := String.ofList [hexDigitChar (b / 16 % 16), hexDigitChar (b % 16)]
def hexOfBytes (bs : List Nat) : String := String.join (bs.map hexByte)

end A816
