import A816.Model.Parser
import A816.Model.Codegen
/-!
# The whole pipeline (`MZParser.parse`, `Program.assemble_string_with_emitter`)

`assemble : source text → outcome`, composing the scanner (L7), parser (L6), code generation (L5)
and the passes (L4).  All data tables are parameters (`Gen.*` at run time).
-/
namespace A816

structure Tables where
  parse : ParseCfg
  env : Env
  lowBus : BusCfg
  highBus : BusCfg
  busMapping : List (String × String)
  recursionLimit : Nat

/-- `Resolver()` -/
def Resolver.init (t : Tables) : Option Resolver :=
  let root : ScopeRec := { kind := .plain, parent := none }
  let r0 : Resolver :=
    { scopes := #[root], current := 0, lastUsed := 0, pc := 0, reloc := default, romType := .low_rom,
      userBus := BusCfg.empty, lowBus := t.lowBus, highBus := t.highBus, busMapping := t.busMapping }
  r0.setPosition 0

inductive Outcome
  /-- assembled: `write_block` calls, `get_all_labels()`, ghost trace, final resolver -/
  | ok (writes : List (Int × List Nat)) (labels : List (String × Int)) (trace : List TraceRec) (r : Resolver)
  /-- `assemble_string_with_emitter` returned an error message (lexical / syntax error):
      kind, file name, line, column, quoted line -/
  | errorString (kind : String) (file : String) (line col : Int) (quoted : String)
  /-- an exception propagated -/
  | raised (e : Err)

/-- the static `File` table: main source, then the text files of the file system -/
def fileNames (fs : FS) (mainName : String) : List String := mainName :: fs.text.map (·.1)

def fileSource (fs : FS) (src : String) (i : Nat) : String :=
  if i = 0 then src else ((fs.text[i - 1]?).map (·.2)).getD ""

/-- `MZParser.parse_as_ast` + `code_gen`, then `resolve_labels` and `emit` -/
def assemble (t : Tables) (rom : RomType) (fs : FS) (mainName : String) (defines : List (String × Int))
    (src : String) : Outcome :=
  match Resolver.init t with
  | none => .raised .key
  | some r0 =>
  let r0 := { r0 with romType := rom }
  let r0 := defines.foldl (fun r (k, v) => r.addSymbol k v) r0
  let sr := scan t.parse.scan .initial 0 src.toList
  let names := fileNames fs mainName
  let nameOf (i : Nat) : String := (names[i]?).getD ""
  -- `position.get_line()` for the quoted line of an error message
  let linesOf (i : Nat) : Array String :=
    if i = 0 then sr.lines else (scan t.parse.scan .initial i (fileSource fs src i).toList).lines
  let scanError (file : Nat) (lines : Array String) (l c : Int) : Outcome :=
    if 0 ≤ l ∧ l.toNat < lines.size then .errorString "scan" (nameOf file) l c (lines.getD l.toNat "")
    else if l < 0 ∧ (-l).toNat ≤ lines.size then .errorString "scan" (nameOf file) l c (lines.getD (lines.size - (-l).toNat) "")
    else .raised .index
  match sr.error with
  | some (.scan _ l c) => scanError 0 sr.lines l c
  | some e => .raised e
  | none =>
    let totalText := fs.text.foldl (fun a (_, c) => a + c.length) 0
    let pfuel := 4 * (sr.toks.size + totalText) + 64
    match (parseProgram t.parse pfuel).run { toks := sr.toks, fs := fs } with
    | .error (.scanIn f _ l c) => scanError f (linesOf f) l c
    | .error (.parseAt f l c ty _) =>
      let lines := linesOf f
      if ty == "EOF" then
        (if lines.size = 0 then .raised .index else .errorString "parse" (nameOf f) l c (lines.getD (lines.size - 1) ""))
      else if 0 ≤ l ∧ l.toNat < lines.size then .errorString "parse" (nameOf f) l c (lines.getD l.toNat "")
      else if l < 0 ∧ (-l).toNat ≤ lines.size then .errorString "parse" (nameOf f) l c (lines.getD (lines.size - (-l).toNat) "")
      else .raised .index
    | .error (.parse _ _) =>
      -- a syntax error on a token without position: `trace()` is `None`, the error is lost and an empty
      -- program is assembled
      match resolveLabels t.env [] r0 with
      | .error e => .raised e
      | .ok r1 =>
        match emitAll t.env [] r1 with
        | .error e => .raised e
        | .ok st => .ok st.writes st.r.allLabels st.trace st.r
    | .error e => .raised e
    | .ok (asts, _) =>
      match (genList t.env t.recursionLimit asts).run { r := r0, macros := [], fs := fs } with
      | .error e => .raised e
      | .ok (nodes, gs) =>
        match resolveLabels t.env nodes gs.r with
        | .error e => .raised e
        | .ok r1 =>
          match emitAll t.env nodes r1 with
          | .error e => .raised e
          | .ok st => .ok st.writes st.r.allLabels st.trace st.r

end A816
