import A816.Model.Ips
import A816.Spec.Ips
/-! Line-protocol handlers for L8 (IPS writer / reader) and the reference IPS reader. -/
namespace A816.Ops
open A816

def hexVal (c : Char) : Option Nat :=
  if '0' ≤ c ∧ c ≤ '9' then some (c.toNat - 48)
  else if 'a' ≤ c ∧ c ≤ 'f' then some (c.toNat - 87)
  else if 'A' ≤ c ∧ c ≤ 'F' then some (c.toNat - 55)
  else none

def unhexAux : List Char → List Nat → Option (List Nat)
  | [], acc => some acc.reverse
  | a :: b :: rest, acc =>
    match hexVal a, hexVal b with
    | some x, some y => unhexAux rest ((x * 16 + y) :: acc)
    | _, _ => none
  | _, _ => none

/-- `-` is the empty byte string -/
def unhex (s : String) : Option (List Nat) := if s == "-" then some [] else unhexAux s.toList []

def hexOrDash (bs : List Nat) : String := if bs.isEmpty then "-" else hexOfBytes bs

def parseBlocks (s : String) : Option (List (Int × List Nat)) :=
  if s == "-" then some [] else
  (s.splitOn ";").mapM fun item =>
    match item.splitOn ":" with
    | [a, h] => match a.toInt?, unhex h with
      | some a, some bs => some (a, bs)
      | _, _ => none
    | _ => none

def showBlocks (bs : List (Int × List Nat)) : String :=
  if bs.isEmpty then "-" else ";".intercalate (bs.map fun (a, d) => s!"{a}:{hexOrDash d}")

def handleIps (ws : List String) : Option String :=
  match ws with
  | ["ipsw", copier, blocks] =>
    match parseBlocks blocks with
    | some bs => some (match ipsFile (copier == "1") bs with
        | .ok f => "ok " ++ hexOrDash f
        | .error e => "err " ++ e.tag)
    | none => some "bad-op"
  | ["ipsr", file, delta] =>
    match unhex file, delta.toInt? with
    | some f, some d => some (match ipsReadInclude f d with
        | .ok bs => "ok " ++ showBlocks bs
        | .error e => "err " ++ e.tag)
    | _, _ => some "bad-op"
  | ["spec.ipsparse", file] =>
    match unhex file with
    | some f => some (match Spec.Ips.parse f with
        | some rs => "some " ++ showBlocks (rs.map fun r => ((r.offset : Int), r.data))
        | none => "none")
    | none => some "bad-op"
  | _ => none

end A816.Ops
