import A816.Model.Front
import A816.Model.OpsAsm
/-! Line-protocol handlers for the front-end decision logic. -/
namespace A816.Ops
open A816

def classOfName : String → Option CoreClass
  | "ok" => some .ok | "errorString" => some .errorString | "nodeError" => some .nodeError
  | "runtimeError" => some .runtimeError | "otherExc" => some .otherExc | _ => none

def entryOfName : String → Option Entry
  | "stringApi" => some .stringApi | "assemble" => some .assemble | "asPatch" => some .asPatch | "cli" => some .cli
  | _ => none

def showReported : Reported → String
  | .none_ => "none"
  | .message => "message"
  | .raised => "raised"
  | .status c a => s!"status {c} {if a then 1 else 0}"

def handleFront (ws : List String) : Option String :=
  match ws with
  | ["front", e, c] =>
    match entryOfName e, classOfName c with
    | some e, some c => some (showReported (report e c))
    | _, _ => some "bad-op"
  | ["plan", fmt, mapping, copier, defs] =>
    match parseDefines defs with
    | some d =>
      let p := planOf { format := fmt, mapping := mapping, copier := copier == "1", defines := d }
      some s!"{if p.sfc then "sfc" else "ips"} {match p.rom with | some r => r.name | none => "none"} {if p.copier then 1 else 0} {p.defines.length}"
    | none => some "bad-op"
  | ["sfcimage", blocks] =>
    match parseBlocks blocks with
    | some bs => some (hexOrDash (sfcImage bs))
    | none => some "bad-op"
  | ["symfile", labels] =>
    -- labels: hexname=value;…
    let ls? : Option (List (String × Int)) := if labels == "-" then some [] else
      (labels.splitOn ";").mapM fun item =>
        match item.splitOn "=" with
        | [n, v] => match textOfHex n, v.toInt? with
          | some n, some v => some (n, v)
          | _, _ => none
        | _ => none
    match ls? with
    | some ls => some (hexOfText (symbolFile ls))
    | none => some "bad-op"
  | _ => none

end A816.Ops
