import A816.Model.Parser
import A816.Model.OpsScan
import A816.Model.OpsExpr
/-! Line-protocol handler for L6 (parser): canonical serialisation of the AST. -/
namespace A816.Ops
open A816

def serTokNode : ENode → String
  | .term .number v => "N:" ++ hexOfText v
  | .term .identifier v => "I:" ++ hexOfText v
  | .term .other v => "O:" ++ hexOfText v
  | .binop v => "B:" ++ hexOfText v
  | .unop v => "U:" ++ hexOfText v
  | .lparen => "("
  | .rparen => ")"

def serExpr (e : PExpr) : String := "E<" ++ ",".intercalate (e.nodes.map serTokNode) ++ ">"

def serInfo (files : Array FileRec) (t : Tok) : String :=
  if t.hasPos then s!"@{hexOfText ((files.getD t.file default).name)}:{t.line}:{t.col}" else "@-"

def serMapVal : MapVal → String
  | .num n => toString n
  | .pair a b => s!"{a}:{b}"

mutual
def serAst (files : Array FileRec) : Ast → String
  | .label n i => s!"label({hexOfText n}){serInfo files i}"
  | .text s i => s!"text({hexOfText s}){serInfo files i}"
  | .ascii s i => s!"ascii({hexOfText s}){serInfo files i}"
  | .scope n b i => s!"scope({hexOfText n},[{serList files b}]){serInfo files i}"
  | .starEq e i => s!"star_eq({serExpr e}){serInfo files i}"
  | .atEq e i => s!"at_eq({serExpr e}){serInfo files i}"
  | .map args i => "map(" ++ "|".intercalate (args.map fun (k, v) => k ++ "=" ++ serMapVal v) ++ ")" ++ serInfo files i
  | .ifNode c t e i => s!"if({serExpr c},[{serList files t}]," ++ (match e with | some eb => "[" ++ serList files eb ++ "]" | none => "-") ++ ")" ++ serInfo files i
  | .macro n ps b i => s!"macro({hexOfText n},{",".intercalate (ps.map hexOfText)},[{serList files b}]){serInfo files i}"
  | .macroApply n args i => s!"apply({hexOfText n},{serArgs files args}){serInfo files i}"
  | .data k es i => s!"{k}({"|".intercalate (es.map serExpr)}){serInfo files i}"
  | .table p i => s!"table({hexOfText p}){serInfo files i}"
  | .includeIps p e i => s!"include_ips({hexOfText p},{serExpr e}){serInfo files i}"
  | .incbin p i => s!"incbin({hexOfText p}){serInfo files i}"
  | .symbol n e i => s!"symbol({hexOfText n},{serExpr e}){serInfo files i}"
  | .assign n e i => s!"assign({hexOfText n},{serExpr e}){serInfo files i}"
  | .codeLookup n i => s!"lookup({hexOfText n}){serInfo files i}"
  | .struct n i => s!"struct({hexOfText n}){serInfo files i}"
  | .forNode v lo hi b i => s!"for({hexOfText v},{serExpr lo},{serExpr hi},[{serList files b}]){serInfo files i}"
  | .opcode m mn sz op ix i =>
    s!"op({m.name},{hexOfText mn},{match sz with | some w => toString w | none => "-"}," ++
      (match op with | some e => serExpr e | none => "-") ++ "," ++ (match ix with | some ix' => ix'.name | none => "-") ++ ")" ++ serInfo files i
  | .block b i => s!"block[{serList files b}]{serInfo files i}"
  | .compound b i => s!"compound[{serList files b}]{serInfo files i}"
def serList (files : Array FileRec) : List Ast → String
  | [] => ""
  | [a] => serAst files a
  | a :: rest => serAst files a ++ ";" ++ serList files rest
def serArgs (files : Array FileRec) : List MArg → String
  | [] => ""
  | [.expr e] => serExpr e
  | [.block b _] => "B[" ++ serList files b ++ "]"
  | .expr e :: rest => serExpr e ++ "|" ++ serArgs files rest
  | .block b _ :: rest => "B[" ++ serList files b ++ "]|" ++ serArgs files rest
end

def parseFSItems {α} (conv : String → Option α) (s : String) : Option (List (String × α)) :=
  if s == "-" then some [] else
  (s.splitOn ",").mapM fun item =>
    match item.splitOn "=" with
    | [n, c] =>
      match textOfHex n, conv c with
      | some n, some c => some (n, c)
      | _, _ => none
    | _ => none

/-- `name=hexcontent,…` text files; `name=hexbytes` binary files -/
def parseFS (text bin : String) : Option FS :=
  match parseFSItems textOfHex text, parseFSItems unhex bin with
  | some t, some b => some ⟨t, b⟩
  | _, _ => none

def genParseCfg : ParseCfg := ⟨genScanCfg, Gen.indexMap⟩

def showErr (files : Array FileRec) : Err → String
  | .scan msg l c => s!"err scan {hexOfText msg} {hexOfText ((files.getD 0 default).name)} {l} {c}"
  | .scanIn f msg l c => s!"err scan {hexOfText msg} {hexOfText ((files.getD f default).name)} {l} {c}"
  | .parseAt f l c ty len => s!"err parse {hexOfText ((files.getD f default).name)} {l} {c} {ty} {len}"
  | .parse _ _ => "err parse-nopos"
  | e => "exc " ++ e.tag

/-- the static `File` table: the main source, then the text files of the file system; each with the
    lines its scan records -/
def fileTable (fs : FS) (mainName : String) (src : String) : Array FileRec :=
  (#[⟨mainName, (scan genScanCfg .initial 0 src.toList).lines⟩] : Array FileRec) ++
    (fs.text.map fun (n, c) => (⟨n, (scan genScanCfg .initial 0 c.toList).lines⟩ : FileRec)).toArray

/-- scan + parse a main source (what `MZParser.parse_as_ast` does) -/
def parseSource (fs : FS) (src : String) : Except Err (List Ast) :=
  let r := scan genScanCfg .initial 0 src.toList
  match r.error with
  | some e => .error e
  | none =>
    let totalText := fs.text.foldl (fun a (_, c) => a + c.length) 0
    let fuel := 4 * (r.toks.size + totalText) + 64
    match (parseProgram genParseCfg fuel).run { toks := r.toks, fs := fs } with
    | .ok (asts, _) => .ok asts
    | .error e => .error e

def tokTyOfName (n : String) : Option TokTy :=
  [TokTy.EOF, .COMMENT, .LABEL, .IDENTIFIER, .QUOTED_STRING, .OPERATOR, .LPAREN, .RPAREN, .SHARP, .RBRAKET, .LBRAKET,
   .RBRACE, .LBRACE, .ADDRESSING_MODE_INDEX, .OPCODE_SIZE, .OPCODE_NAKED, .OPCODE, .COMMA, .KEYWORD, .NUMBER, .STAR_EQ,
   .AT_EQ, .EQUAL, .ASSIGN, .DOUBLE_LBRACE, .DOUBLE_RBRACE, .MULTILINE_COMMENT_START, .MULTILINE_COMMENT_END, .BOOLEAN,
   .TYPE].find? (fun t => t.name == n)

/-- `TY:hexvalue` -/
def parseTokArg (w : String) : Option Tok :=
  match w.splitOn ":" with
  | [ty, v] =>
    match tokTyOfName ty, textOfHex v with
    | some t, some s => some { ty := t, val := s, line := 0, col := 0, file := 0, hasPos := true }
    | _, _ => none
  | _ => none

def handleParse (ws : List String) : Option String :=
  match ws with
  | "ptoks" :: toks =>
    match toks.mapM parseTokArg with
    | some ts =>
      let files : Array FileRec := #[⟨"t", #[""]⟩]
      let arr := ts.toArray
      some (match (parseProgram genParseCfg (4 * arr.size + 64)).run { toks := arr, fs := ⟨[], []⟩ } with
        | .ok (asts, _) => "ok " ++ serList files asts
        | .error e => showErr files e)
    | none => some "bad-op"
  | ["parse", text, bin, src] =>
    match parseFS text bin, textOfHex src with
    | some fs, some s =>
      let files := fileTable fs "main.s" s
      some (match parseSource fs s with
        | .ok asts => "ok " ++ serList files asts
        | .error e => showErr files e)
    | _, _ => some "bad-op"
  | _ => none

end A816.Ops
