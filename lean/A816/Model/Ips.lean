import A816.Model.Types
import A816.Model.Bytes
/-!
# L8 — IPS writer (`writers.py: IPSWriter`), SFC writer, and the `.include_ips` reader
(`nodes.py: IncludeIpsNode.__init__`, after the F11 / F13 repairs)
-/
namespace A816

def ipsMagic : List Nat := [0x50, 0x41, 0x54, 0x43, 0x48]
def ipsEof : List Nat := [0x45, 0x4F, 0x46]

/-- `IPSWriter.write_block_header` (the bytes it writes). -/
def ipsHeader (copier : Bool) (addr : Int) (len : Nat) : Except Err (List Nat) :=
  let a := if copier then addr + 0x200 else addr
  if a = 0x454F46 then .error .value
  else match packBHbe (a / 65536) (a % 65536), packHbe len with
    | some x, some y => .ok (x ++ y)
    | _, _ => .error .struct

/-- `IPSWriter.write_block`: `while block[k:]` with slices of at most 0xFFFF bytes.
    The fuel is the number of loop iterations allowed. -/
def ipsWriteBlockAux (copier : Bool) : Nat → Int → List Nat → Except Err (List Nat)
  | 0, _, block => if block = [] then .ok [] else .error .outOfFuel
  | fuel+1, addr, block =>
    if block = [] then .ok [] else
      let n := min 0xFFFF block.length
      match ipsHeader copier addr n with
      | .error e => .error e
      | .ok h =>
        match ipsWriteBlockAux copier fuel (addr + n) (block.drop n) with
        | .error e => .error e
        | .ok rest => .ok (h ++ block.take n ++ rest)

def ipsWriteBlock (copier : Bool) (addr : Int) (block : List Nat) : Except Err (List Nat) :=
  ipsWriteBlockAux copier (block.length / 0xFFFF + 1) addr block

/-- records of a sequence of `write_block` calls -/
def ipsWriteBlocks (copier : Bool) : List (Int × List Nat) → Except Err (List Nat)
  | [] => .ok []
  | (addr, block) :: rest =>
    match ipsWriteBlock copier addr block with
    | .error e => .error e
    | .ok a =>
      match ipsWriteBlocks copier rest with
      | .error e => .error e
      | .ok b => .ok (a ++ b)

/-- `begin()`, the `write_block` calls, `end()` -/
def ipsFile (copier : Bool) (blocks : List (Int × List Nat)) : Except Err (List Nat) :=
  match ipsWriteBlocks copier blocks with
  | .error e => .error e
  | .ok body => .ok (ipsMagic ++ body ++ ipsEof)

/-! ### the `.include_ips` reader: `file.read(n)` on a byte stream -/

/-- records read by `IncludeIpsNode.__init__` after the `PATCH` check, shifted by `delta`.
    `bs` is what is left of the stream. -/
def ipsReadRecords (delta : Int) : Nat → List Nat → Except Err (List (Int × List Nat))
  | 0, _ => .error .outOfFuel
  | fuel+1, bs =>
    let header := bs.take 3
    if header = ipsEof then .ok []
    else if header.length ≠ 3 then .error .struct          -- struct.unpack(">BH", short read)
    else
      let addr : Nat := header[0]! * 65536 + header[1]! * 256 + header[2]!
      let bs := bs.drop 3
      let sz := bs.take 2
      if sz.length ≠ 2 then .error .struct
      else
        let size := sz[0]! * 256 + sz[1]!
        let bs := bs.drop 2
        if size = 0 then
          let r := bs.take 3
          if r.length ≠ 3 then .error .struct
          else
            match ipsReadRecords delta fuel (bs.drop 3) with
            | .error e => .error e
            | .ok rs => .ok (((addr : Int) + delta, List.replicate (r[0]! * 256 + r[1]!) r[2]!) :: rs)
        else
          let block := bs.take size
          if block.length ≠ size then .error .runtime
          else
            match ipsReadRecords delta fuel (bs.drop size) with
            | .error e => .error e
            | .ok rs => .ok (((addr : Int) + delta, block) :: rs)

/-- `IncludeIpsNode(path, resolver, delta)`: the blocks it hands to the writer. -/
def ipsReadInclude (file : List Nat) (delta : Int) : Except Err (List (Int × List Nat)) :=
  if file.take 5 ≠ ipsMagic then .error .runtime
  else ipsReadRecords delta (file.length + 1) (file.drop 5)

end A816
