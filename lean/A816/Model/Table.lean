import A816.Model.Types
import A816.Model.Bytes
import A816.Model.Expr
/-!
# L9 — character tables (`script/__init__.py: Table`)

`parseTableLine` is the hand-written recogniser of `table_line_regex`, `jokerMatch` of `joker_regex`.
Dict semantics: a later line with the same text (or the same code) replaces the earlier one.
-/
namespace A816

structure TblEntry where
  text : List Char
  code : List Nat
  ignore : Option Nat
  deriving DecidableEq, Repr, Inhabited

structure Tbl where
  entries : List TblEntry      -- in file order
  maxTextLen : Nat
  maxCodeLen : Nat
  deriving Repr, Inhabited

def isHexChar (c : Char) : Bool := (digitVal c).isSome
def isPyWhitespace (c : Char) : Bool :=
  c == ' ' || c == '\t' || c == '\n' || c == '\r' || c == '\x0b' || c == '\x0c'

def spanChars (p : Char → Bool) : List Char → List Char × List Char
  | [] => ([], [])
  | c :: cs => if p c then let (a, b) := spanChars p cs; (c :: a, b) else ([], c :: cs)

/-- pairs of hex digits → bytes; `none` = `ValueError` (odd number of digits: `zip(strict=True)`) -/
def hexPairs : List Char → Option (List Nat)
  | [] => some []
  | a :: b :: rest =>
    match digitVal a, digitVal b, hexPairs rest with
    | some x, some y, some r => some ((x * 16 + y) :: r)
    | _, _, _ => none
  | [_] => none

def replaceBackslashN : List Char → List Char
  | '\\' :: 'n' :: rest => '\n' :: replaceBackslashN rest
  | c :: rest => c :: replaceBackslashN rest
  | [] => []

/-- one line of a table file (as returned by `readlines()`, i.e. with its newline).
    `.ok none`: the line does not match and is skipped; `.error`: `ValueError`. -/
def parseTableLine (line : List Char) : Except Err (Option TblEntry) :=
  let (hex, r1) := spanChars isHexChar line
  if hex.isEmpty then .ok none else
  let (ign, r2) : Option (List Char) × List Char :=
    match r1 with
    | ':' :: r =>
      let (ig, r') := spanChars isHexChar r
      if ig.isEmpty then (none, r1) else (some ig, r')
    | _ => (none, r1)
  let (_, r3) := spanChars isPyWhitespace r2
  match r3 with
  | '=' :: r4 =>
    let (txt, _) := spanChars (fun c => c != '\n') r4
    if txt.isEmpty then .ok none else
    match hexPairs hex with
    | none => .error .value
    | some code =>
      let text := replaceBackslashN txt
      match ign with
      | none => .ok (some ⟨text, code, none⟩)
      | some ig =>
        match parseDigits 10 ig 0 with      -- int(ignore): decimal
        | some n => .ok (some ⟨text, code, some n⟩)
        | none => .error .value
  | _ => .ok none

def parseTableLines : List (List Char) → Except Err (List TblEntry)
  | [] => .ok []
  | l :: ls =>
    match parseTableLine l, parseTableLines ls with
    | .error e, _ => .error e
    | _, .error e => .error e
    | .ok none, .ok r => .ok r
    | .ok (some e), .ok r => .ok (e :: r)

/-- `dict[text]` after all assignments: the last entry with that text -/
def tblLookup (entries : List TblEntry) (text : List Char) : Option (List Nat) :=
  (entries.reverse.find? fun e => e.text == text).map (·.code)

/-- `inverted_lookup[code]`: the last entry with that code -/
def tblInvLookup (entries : List TblEntry) (code : List Nat) : Option TblEntry :=
  entries.reverse.find? fun e => e.code == code

/-- split a file's text into `readlines()` lines (each with its trailing newline) -/
def readLines (cs : List Char) : List (List Char) :=
  let rec go : List Char → List Char → List (List Char) → List (List Char)
    | [], cur, acc => (if cur.isEmpty then acc else cur.reverse :: acc).reverse
    | c :: rest, cur, acc => if c == '\n' then go rest [] ((c :: cur).reverse :: acc) else go rest (c :: cur) acc
  go cs [] []

/-- `Table(path)` from the file's lines; `error .value` also for an empty table (`max()` of nothing) -/
def mkTable (lines : List (List Char)) : Except Err Tbl :=
  match parseTableLines lines with
  | .error e => .error e
  | .ok [] => .error .value
  | .ok es => .ok ⟨es, (es.map (·.text.length)).foldl max 0, (es.map (·.code.length)).foldl max 0⟩

/-- `joker_regex.match(remainder)`: `[0x` hexdigits `]` → (value, matched length) -/
def jokerMatch (rem : List Char) : Option (Nat × Nat) :=
  if rem.take 3 = ['[', '0', 'x'] then
    let sp := spanChars isHexChar (rem.drop 3)
    if sp.1.isEmpty then none
    else if sp.2.head? = some ']' then (parseDigits 16 sp.1 0).map fun v => (v, sp.1.length + 4)
    else none
  else none

/-- the `for i in range(m, 0, -1)` loop: first (longest) `i` whose slice is a key -/
def tryLen (entries : List TblEntry) (rem : List Char) : Nat → Option (List Nat × Nat)
  | 0 => none
  | i+1 =>
    match tblLookup entries (rem.take (i+1)) with
    | some code => some (code, i+1)
    | none => tryLen entries rem i

/-- `Table.to_bytes`: fuel = number of loop iterations (each consumes ≥ 1 character) -/
def toBytesAux (t : Tbl) (textLen : Nat) : Nat → List Char → Except Err (List Nat)
  | 0, rem => if rem.isEmpty then .ok [] else .error .outOfFuel
  | fuel+1, rem =>
    if rem.isEmpty then .ok [] else
    match jokerMatch rem with
    | some (v, n) =>
      if v > 255 then .error .value else
      match toBytesAux t textLen fuel (rem.drop n) with
      | .error e => .error e
      | .ok r => .ok (v :: r)
    | none =>
      match tryLen t.entries rem (min textLen t.maxTextLen) with
      | some (code, i) =>
        match toBytesAux t textLen fuel (rem.drop i) with
        | .error e => .error e
        | .ok r => .ok (code ++ r)
      | none => toBytesAux t textLen fuel (rem.drop 1)

def Tbl.toBytes (t : Tbl) (text : List Char) : Except Err (List Nat) :=
  toBytesAux t text.length text.length text

/-- Python `hex(n)` -/
def pyHex (n : Nat) : List Char :=
  '0' :: 'x' :: (Nat.toDigits 16 n)

def tryLenBytes (entries : List TblEntry) (rem : List Nat) : Nat → Option (TblEntry × Nat)
  | 0 => none
  | i+1 =>
    match tblInvLookup entries (rem.take (i+1)) with
    | some e => some (e, i+1)
    | none => tryLenBytes entries rem i

/-- the `for _ in range(ignore)` loop of `to_text` -/
def ignoreBytes : Nat → List Nat → Except Err (List Char × List Nat)
  | 0, rem => .ok ([], rem)
  | n+1, rem =>
    match rem with
    | [] => .error .index
    | b :: rest =>
      match ignoreBytes n rest with
      | .error e => .error e
      | .ok (txt, r) => .ok (('[' :: pyHex b) ++ (']' :: txt), r)

/-- `Table.to_text` -/
def toTextAux (t : Tbl) : Nat → List Nat → Except Err (List Char)
  | 0, rem => if rem.isEmpty then .ok [] else .error .outOfFuel
  | fuel+1, rem =>
    match rem with
    | [] => .ok []
    | b :: rest =>
      match tryLenBytes t.entries rem (min rem.length t.maxCodeLen) with
      | some (e, i) =>
        match e.ignore with
        | none =>
          match toTextAux t fuel (rem.drop i) with
          | .error er => .error er
          | .ok r => .ok (e.text ++ r)
        | some n =>
          match ignoreBytes n (rem.drop i) with
          | .error er => .error er
          | .ok (txt, rem') =>
            match toTextAux t fuel rem' with
            | .error er => .error er
            | .ok r => .ok (e.text ++ txt ++ r)
      | none =>
        match toTextAux t fuel rest with
        | .error er => .error er
        | .ok r => .ok (('[' :: pyHex b) ++ (']' :: r))

def Tbl.toText (t : Tbl) (bin : List Nat) : Except Err (List Char) := toTextAux t bin.length bin

end A816
