import A816.Model.Types
import A816.Model.Expr
import A816.Model.Scanner
/-! AST produced by the parser (`a816/parse/ast/nodes.py`). Every node keeps its `file_info` token. -/
namespace A816

/-- `ExpressionAstNode`: the flat node list and `file_info` (= the first node's token) -/
structure PExpr where
  nodes : List ENode
  info : Tok
  deriving Repr, Inhabited

inductive MapVal
  | num (n : Int)
  | pair (a b : Int)
  deriving Repr, Inhabited, DecidableEq

mutual
inductive Ast
  | label (name : String) (info : Tok)
  | text (s : String) (info : Tok)
  | ascii (s : String) (info : Tok)
  | scope (name : String) (body : List Ast) (info : Tok)
  | starEq (e : PExpr) (info : Tok)
  | atEq (e : PExpr) (info : Tok)
  | map (args : List (String × MapVal)) (info : Tok)
  | ifNode (cond : PExpr) (thenB : List Ast) (elseB : Option (List Ast)) (info : Tok)
  | macro (name : String) (params : List String) (body : List Ast) (info : Tok)
  | macroApply (name : String) (args : List MArg) (info : Tok)
  | data (kind : String) (es : List PExpr) (info : Tok)
  | table (path : String) (info : Tok)
  | includeIps (path : String) (e : PExpr) (info : Tok)
  | incbin (path : String) (info : Tok)
  | symbol (name : String) (e : PExpr) (info : Tok)
  | assign (name : String) (e : PExpr) (info : Tok)
  | codeLookup (name : String) (info : Tok)
  | struct (name : String) (info : Tok)
  | forNode (sym : String) (lo hi : PExpr) (body : List Ast) (info : Tok)
  | opcode (mode : AddrMode) (mn : String) (size : Option Nat) (operand : Option PExpr) (index : Option Idx) (info : Tok)
  | block (body : List Ast) (info : Tok)
  | compound (body : List Ast) (info : Tok)
inductive MArg
  | expr (e : PExpr)
  | block (body : List Ast) (info : Tok)
end

instance : Inhabited Ast := ⟨.label "" default⟩
instance : Inhabited MArg := ⟨.expr default⟩

def Ast.info : Ast → Tok
  | .label _ i | .text _ i | .ascii _ i | .scope _ _ i | .starEq _ i | .atEq _ i | .map _ i | .ifNode _ _ _ i
  | .macro _ _ _ i | .macroApply _ _ i | .data _ _ i | .table _ i | .includeIps _ _ i | .incbin _ i | .symbol _ _ i
  | .assign _ _ i | .codeLookup _ i | .struct _ i | .forNode _ _ _ _ i | .opcode _ _ _ _ _ i | .block _ i
  | .compound _ i => i

/-- a virtual file system: text files (sources, tables) and binary files by path -/
structure FS where
  text : List (String × String)
  bin : List (String × List Nat)
  deriving Repr, Inhabited

/-- a registered source `File`: its name and the lines recorded by the scanner -/
structure FileRec where
  name : String
  lines : Array String
  deriving Repr, Inhabited

end A816
