import A816.Model.Types
import A816.Model.Bytes
/-!
# L10 — legacy conversions (`rom_to_snes`, `snes_to_rom`, `script/formulas.py`)
`int(address / 0x8000)` is float division in Python; it is exact for `address < 2^53`
(power-of-two divisor), which covers the 4 MiB domain of the property.
-/
namespace A816

def romToSnes (address : Nat) : RomType → Nat
  | .low_rom => ((address / 0x8000) <<< 16) ||| (address % 0x8000 + 0x8000)
  | .low_rom_2 => ((address / 0x8000 + 0x80) <<< 16) ||| (address % 0x8000 + 0x8000)
  | .high_rom => address + 0xC00000

def snesToRom (address : Nat) : Nat :=
  if address ≥ 0xC00000 then address - 0xC00000
  else if address ≥ 0x808000 then ((address >>> 16) - 0x80) * 0x8000 + (address &&& 0x7FFF)
  else (address >>> 16) * 0x8000 + (address &&& 0x7FFF)

/-- `long_low_rom_pointer(base)(pointer)` -/
def longLowRomPointer (base pointer : Nat) : Option (List Nat) :=
  let a := romToSnes (pointer + base) .low_rom
  packHBle (a &&& 0xFFFF : Nat) (a >>> 16 : Nat)

/-- `base_relative_16bits_pointer_formula(base)(v)` for `v = [b0, b1, …]`; `none` = `IndexError`. -/
def baseRelative16 (base : Int) : List Nat → Option Int
  | b0 :: b1 :: _ => some ((b0 : Int) + ((b1 <<< 8 : Nat) : Int) + base)
  | _ => none

end A816
