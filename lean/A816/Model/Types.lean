/-!
# Shared data types of the a816 model

Hand-written.  The *values* of these types that describe the code's data tables
(`Gen.opcodeTable`, `Gen.lowRomBus`, …) are regenerated from the live Python
objects of `/repo` on every run by `harness/extract.py`.
-/
namespace A816

/-- `a816.cpu.cpu_65c816.AddressingMode` (constructor order = enum value). -/
inductive AddrMode
  | none | immediate | direct | direct_indexed | indirect | indirect_indexed
  | indirect_long | indirect_indexed_long | dp_or_sr_indirect_indexed
  | stack_indexed_indirect_indexed
  deriving DecidableEq, Repr, Inhabited

def AddrMode.toNat : AddrMode → Nat
  | .none => 0 | .immediate => 1 | .direct => 2 | .direct_indexed => 3 | .indirect => 4
  | .indirect_indexed => 5 | .indirect_long => 6 | .indirect_indexed_long => 7
  | .dp_or_sr_indirect_indexed => 8 | .stack_indexed_indirect_indexed => 9

def AddrMode.name : AddrMode → String
  | .none => "none" | .immediate => "immediate" | .direct => "direct"
  | .direct_indexed => "direct_indexed" | .indirect => "indirect"
  | .indirect_indexed => "indirect_indexed" | .indirect_long => "indirect_long"
  | .indirect_indexed_long => "indirect_indexed_long"
  | .dp_or_sr_indirect_indexed => "dp_or_sr_indirect_indexed"
  | .stack_indexed_indirect_indexed => "stack_indexed_indirect_indexed"

def AddrMode.all : List AddrMode :=
  [.none, .immediate, .direct, .direct_indexed, .indirect, .indirect_indexed, .indirect_long,
   .indirect_indexed_long, .dp_or_sr_indirect_indexed, .stack_indexed_indirect_indexed]

def AddrMode.ofName (s : String) : Option AddrMode := AddrMode.all.find? (fun m => m.name == s)

/-- index registers as the scanner accepts them (`xXyYsS`, lower-cased by the parser) and as the
    opcode table keys them -/
inductive Idx | x | y | s
  deriving DecidableEq, Repr, Inhabited

def Idx.name : Idx → String | .x => "x" | .y => "y" | .s => "s"
def Idx.ofName (s : String) : Option Idx :=
  if s == "x" then some .x else if s == "y" then some .y else if s == "s" then some .s else none

/-- The Python class of an opcode-table value. -/
inductive OpKind
  | implied   -- `OpcodeWithoutOperand`
  | relative  -- `RelativeJumpOpcode`
  | sized     -- `Opcode` (per-width opcode bytes)
  deriving DecidableEq, Repr, Inhabited

/-- One leaf of `snes_opcode_table`: mnemonic, addressing mode, index key (for the
    dict-valued entries) and the opcode byte(s): `bytes[i]` is the opcode for operand width `i+1`. -/
structure OpEntry where
  mn : String
  mode : AddrMode
  index : Option Idx
  kind : OpKind
  bytes : List (Option Nat)
  deriving DecidableEq, Repr, Inhabited

/-- `a816.cpu.mapping.Mapping` (the unused `address_range` is kept for the record only). -/
structure Mapping where
  lo : Nat
  hi : Nat
  mask : Nat
  /-- `writable is not False` in Python: such a mapping has no ROM offset. -/
  ram : Bool
  deriving DecidableEq, Repr, Inhabited

/-- `a816.cpu.mapping.Bus`: both dicts in insertion order. -/
structure BusCfg where
  mappings : List (String × Mapping)
  lookup : List (Nat × String)
  editable : Bool
  deriving DecidableEq, Repr, Inhabited

inductive RomType | low_rom | low_rom_2 | high_rom
  deriving DecidableEq, Repr, Inhabited

def RomType.name : RomType → String
  | .low_rom => "low_rom" | .low_rom_2 => "low_rom_2" | .high_rom => "high_rom"

/-- Python-dict style lookup in an association list (first match; the lists are kept duplicate-free by `insert`). -/
def alookup {α β} [BEq α] (k : α) : List (α × β) → Option β
  | [] => Option.none
  | (k', v) :: rest => if k' == k then some v else alookup k rest

/-- dict assignment `d[k] = v`: replaces in place when present (keeps insertion position), else appends. -/
def ainsert {α β} [BEq α] (k : α) (v : β) : List (α × β) → List (α × β)
  | [] => [(k, v)]
  | (k', v') :: rest => if k' == k then (k', v) :: rest else (k', v') :: ainsert k v rest

def aerase {α β} [BEq α] (k : α) : List (α × β) → List (α × β)
  | [] => []
  | (k', v') :: rest => if k' == k then rest else (k', v') :: aerase k rest

end A816

namespace A816
/-- Python exception classes that the assembler's control flow distinguishes (others are `other`). -/
inductive Err
  | key | index | value | runtime | struct | zeroDiv | recursion | os | type | assertion | other
  | symbolNotDefined (name : String)
  | node (msg : String) (line : Int)     -- `NodeError` (message class, line of `file_info`; -1 when absent)
  | nodeAt (msg : String) (file : Nat) (line : Int)  -- `NodeError` with the file of `file_info`
  | scan (msg : String) (line col : Int)  -- `ScannerException`
  | scanIn (file : Nat) (msg : String) (line col : Int)  -- `ScannerException` raised while scanning an included file
  | parse (line col : Int)                -- `ParserSyntaxError` (position of its token; -1 when absent)
  | parseAt (file : Nat) (line col : Int) (ty : String) (len : Nat) -- … with file, token type and value length
  | outOfFuel                             -- the model's fuel ran out: the Python code would not terminate
  deriving DecidableEq, Repr, Inhabited

def Err.tag : Err → String
  | .key => "KeyError" | .index => "IndexError" | .value => "ValueError" | .runtime => "RuntimeError"
  | .struct => "struct.error" | .zeroDiv => "ZeroDivisionError" | .recursion => "RecursionError"
  | .os => "OSError" | .type => "TypeError" | .assertion => "AssertionError" | .other => "Exception"
  | .symbolNotDefined _ => "SymbolNotDefined" | .node _ _ => "NodeError" | .scan _ _ _ => "ScannerException"
  | .parse _ _ => "ParserSyntaxError" | .outOfFuel => "OUT-OF-FUEL"
  | .nodeAt _ _ _ => "NodeError" | .scanIn _ _ _ _ => "ScannerException" | .parseAt _ _ _ _ _ => "ParserSyntaxError"
end A816

namespace A816
inductive Bracket | none | paren | square
  deriving DecidableEq, Repr, Inhabited

/-- The shape of an instruction's operand as written in the source:
    `#`?, enclosing bracket, index register inside the bracket, index register after it. -/
structure Syntax where
  operand : Bool            -- false: the mnemonic stands alone
  imm : Bool
  bracket : Bracket
  inner : Option Idx
  outer : Option Idx
  deriving DecidableEq, Repr, Inhabited
end A816
