import A816.Model.Scanner
import A816.Model.OpsTable
import A816.Gen.Tables
/-! Line-protocol handler for L7 (scanner). -/
namespace A816.Ops
open A816

def genScanCfg : ScanCfg := ⟨Gen.scannerOpcodes, Gen.opcodesWithoutOperand, Gen.keywords⟩

def showTokPos (t : Tok) : String := s!"{t.ty.name}:{hexOfText t.val}:{t.line}:{t.col}"

def showLines (ls : Array String) : String :=
  if ls.isEmpty then "-" else ",".intercalate (ls.toList.map hexOfText)

def showScan (r : ScanResult) : String :=
  match r.error with
  | none => "ok " ++ " ".intercalate (r.toks.toList.map showTokPos) ++ " | " ++ showLines r.lines
  | some (.scan msg l c) => s!"err {hexOfText msg} {l} {c} | " ++ showLines r.lines
  | some e => "err " ++ e.tag ++ " | " ++ showLines r.lines

def handleScan (ws : List String) : Option String :=
  match ws with
  | ["scan", st, text] =>
    let st? : Option ScanState := if st == "initial" then some .initial else if st == "expression" then some .expression else none
    match st?, textOfHex text with
    | some st, some t => some (showScan (scan genScanCfg st 0 t.toList))
    | _, _ => some "bad-op"
  | _ => none

end A816.Ops
