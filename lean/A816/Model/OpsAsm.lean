import A816.Model.Program
import A816.Model.OpsParse
import A816.Model.OpsBasic
/-! Line-protocol handler for the whole pipeline. -/
namespace A816.Ops
open A816

def genTables : Tables :=
  { parse := genParseCfg, env := ⟨genPrecTable, Gen.opcodeTable⟩, lowBus := Gen.lowRomBus, highBus := Gen.highRomBus,
    busMapping := Gen.busMapping, recursionLimit := 400 }

def showWrites (ws : List (Int × List Nat)) : String :=
  if ws.isEmpty then "-" else ";".intercalate (ws.map fun (a, d) => s!"{a}:{hexOrDash d}")

def showLabels (ls : List (String × Int)) : String :=
  if ls.isEmpty then "-" else ";".intercalate (ls.map fun (n, v) => s!"{hexOfText n}={v}")

def showTrace (tr : List TraceRec) : String :=
  if tr.isEmpty then "-" else ";".intercalate (tr.map fun t => s!"{t.run}:{t.storage}:{t.bytes.length}")

def parseDefines (s : String) : Option (List (String × Int)) :=
  if s == "-" then some [] else
  (s.splitOn ",").mapM fun item =>
    match item.splitOn "=" with
    | [k, v] => match textOfHex k, v.toInt? with
      | some k, some v => some (k, v)
      | _, _ => none
    | _ => none

def showOutcome (files : Array FileRec) : Outcome → String
  | .ok w l tr _ => s!"ok W={showWrites w} L={showLabels l} T={showTrace tr}"
  | .errorString k f l c q => s!"error {k} {hexOfText f} {l} {c} {hexOfText q}"
  | .raised e =>
    match e with
    | .nodeAt msg f l =>
      let fr := files.getD f default
      s!"raised NodeError {msg} {hexOfText fr.name} {l} {hexOfText (fr.lines.getD l.toNat "")}"
    | .node msg l => s!"raised NodeError {msg} - {l} -"
    | e => "raised " ++ e.tag

def handleAsm (ws : List String) : Option String :=
  match ws with
  | ["asm", rom, defs, text, bin, src] =>
    match romOfName rom, parseDefines defs, parseFS text bin, textOfHex src with
    | some rom, some defs, some fs, some s => some (showOutcome (fileTable fs "main.s" s) (assemble genTables rom fs "main.s" defs s))
    | _, _, _, _ => some "bad-op"
  | _ => none

end A816.Ops
