import A816.Model.Types
import A816.Model.Bytes
/-!
# L2 — instruction encoding (`cpu_65c816.py`: `Opcode`, `OpcodeWithoutOperand`, `guess_value_size`;
`nodes.py`: `OpcodeNode._get_emitter/emit/pc_after`, `ValueNodeProtocol.get_operand_size`;
`parser_states.py`: addressing-mode decision of `parse_opcode` / `parse_operand_and_addressing`)

The opcode table and `index_map` are parameters (the regenerated `Gen.*` at run time).
Relative branches are encoded by the passes layer (they need the resolver); here they only report
their kind and length.
-/
namespace A816

/-- `ValueNodeProtocol.get_operand_size` for an `ExpressionNode`: by the number of hex digits of the value
    (`len(hex(v)) - 2`, which counts the minus sign of a negative value). Result: operand width in bytes. -/
def operandSize (v : Int) : Nat :=
  let n := pyHexLenMinus2 v
  if n ≤ 2 then 1 else if n ≤ 4 then 2 else 3

/-- `guess_value_size(value_node, size)`: the explicit suffix when there is one. -/
def guessSize (sfx : Option Nat) (v : Int) : Nat :=
  match sfx with
  | some w => w
  | none => operandSize v

/-- `Opcode.emit_value` -/
def emitValue (w : Nat) (v : Int) : Option (List Nat) :=
  if w = 1 then packB (v % 256)
  else if w = 2 then packHle (v % 65536)
  else if w = 3 then packHBle (v % 65536) (v / 65536)
  else some []

/-- `Opcode.get_opcode_byte`: `none` = `NoOpcodeForOperandSize` -/
def opcodeByte (e : OpEntry) (w : Nat) : Option Nat :=
  if w = 0 then none else (e.bytes[w - 1]?).join

/-- `OpcodeNode._get_emitter` -/
def findEmitter (tbl : List OpEntry) (mn : String) (mode : AddrMode) (index : Option Idx) :
    Except Err OpEntry :=
  let rows := tbl.filter fun e => e.mn == mn && e.mode == mode
  match rows with
  | [] => .error (.node "addressing" (-1))
  | first :: _ =>
    match first.index with
    | none => .ok first                      -- a plain emitter: the index is not consulted
    | some _ =>
      match index with
      | none => .error (.node "needs-index" (-1))
      | some i =>
        match rows.find? fun e => e.index == some i with
        | some e => .ok e
        | none => .error .key

/-- `Opcode.emit` / `OpcodeWithoutOperand.emit` for the non-relative kinds.
    `value = none` models `value_node is None`. -/
def emitEntry (e : OpEntry) (sfx : Option Nat) (value : Option Int) : Except Err (List Nat) :=
  match e.kind with
  | .implied =>
    match opcodeByte e 1 with
    | some op => (match packB op with | some b => .ok b | none => .error .struct)
    | none => .error .other
  | .relative => .error .other  -- handled by the passes layer
  | .sized =>
    match value with
    | none => .error .runtime
    | some v =>
      let w := guessSize sfx v
      match opcodeByte e w with
      | none => .error (.node "size" (-1))
      | some op =>
        match packB op, emitValue w v with
        | some b, some bs => .ok (b ++ bs)
        | _, _ => .error .struct

/-- `supposed_length` -/
def supposedLength (e : OpEntry) (sfx : Option Nat) (value : Option Int) : Except Err Nat :=
  match e.kind with
  | .implied => .ok 1
  | .relative => .ok 2
  | .sized =>
    match value with
    | none => .error .runtime
    | some v => .ok (1 + guessSize sfx v)

/-- The addressing-mode decision of `parse_opcode` + `parse_operand_and_addressing` on the operand shape
    (after the F01b/F16 repairs): result = (`addressing_mode`, `index or inner_index`). -/
def modeOfSyntax (indexMap : List (AddrMode × AddrMode)) (syn : Syntax) :
    Except Err (AddrMode × Option Idx) :=
  let base : Except Err (AddrMode × Option Idx) :=
    if !syn.operand then .ok (.none, none)
    else if syn.imm then (if syn.inner.isSome || syn.bracket != .none then .error (.parse (-1) (-1)) else .ok (.immediate, none))
    else match syn.bracket with
      | .paren => if syn.inner.isSome then .ok (.dp_or_sr_indirect_indexed, syn.inner) else .ok (.indirect, none)
      | .square => if syn.inner.isSome then .error (.parse (-1) (-1)) else .ok (.indirect_long, none)
      | .none => if syn.inner.isSome then .error (.parse (-1) (-1)) else .ok (.direct, none)
  match base with
  | .error e => .error e
  | .ok (mode, inner) =>
    match syn.outer with
    | none => .ok (mode, inner)
    | some idx =>
      if inner.isSome && !(inner == some Idx.s && idx == Idx.y) then .error (.parse (-1) (-1))
      else match alookup mode indexMap with
        | none => .error .key
        | some m' => .ok (m', some idx)

/-- one instruction statement, from its written shape to its bytes (non-relative kinds) -/
def encodeInstr (tbl : List OpEntry) (indexMap : List (AddrMode × AddrMode)) (mn : String) (syn : Syntax)
    (sfx : Option Nat) (v : Int) : Except Err (List Nat) :=
  match modeOfSyntax indexMap syn with
  | .error e => .error e
  | .ok (mode, index) =>
    match findEmitter tbl mn mode index with
    | .error e => .error e
    | .ok e => emitEntry e sfx (if syn.operand then some v else none)

end A816
