import A816.Model.Resolver
import A816.Model.Cpu
import A816.Model.Ips
/-!
# L4 — code-generation nodes (`a816/parse/nodes.py`) and the passes of `a816/program.py`

`pcAfter` / `emitNode` follow the methods of each node class; `resolveLabels` and `emitAll` follow
`Program.resolve_labels` and `Program.emit`.  The emission loop also records a ghost trace (per node:
run address, storage offset, bytes) used by the theorems of C02 / C03 / C05 and by the streams.
-/
namespace A816

inductive Node
  | label (name : String)
  | symbol (name : String) (e : PExpr)
  | argSymbol (name : String) (e : PExpr)           -- `ArgumentNode`: a deferred macro argument, evaluated in the enclosing scope
  | symbolConst (name : String) (v : Int)          -- the loop variable of `.for` (a NUMBER term built from `str(k)`)
  | binary (content : List Nat) (symbolBase : String)
  | data (w : Nat) (e : PExpr) (info : Tok)         -- ByteNode / WordNode / LongNode / PointerNode (w = 1, 2, 3, 3)
  | opcode (mn : String) (size : Option Nat) (mode : AddrMode) (index : Option Idx) (value : Option PExpr) (info : Tok)
  | codePos (e : PExpr) (info : Tok)
  | reloc (e : PExpr) (info : Tok)
  | includeIps (blocks : List (Int × List Nat))
  | scopeEnter
  | scopePop
  | table
  | text (s : String) (tbl : Option Tbl) (info : Tok)
  | ascii (s : String)
  deriving Inhabited

structure Env where
  prec : PrecTable
  opcodes : List OpEntry

def nodeErr (msg : String) (t : Tok) : Err := if t.hasPos then .nodeAt msg t.file t.line else .node msg (-1)

/-- `eval_expression(expression, resolver)` in the current scope -/
def evalP (env : Env) (r : Resolver) (e : PExpr) : Except Err Int := evalTokens env.prec r.look e.nodes

/-- `ExpressionNode.get_value()`: `SymbolNotDefined` becomes a `NodeError` at the statement's `file_info` -/
def getValue (env : Env) (r : Resolver) (e : PExpr) (info : Tok) : Except Err Int :=
  match evalP env r e with
  | .error (.symbolNotDefined _) => .error (nodeErr "undefined" info)
  | x => x

/-- `text.encode("ascii", errors="ignore")` -/
def asciiBytes (s : String) : List Nat := (s.toList.filter fun c => c.toNat < 128).map Char.toNat

/-- `AbstractTextNode.binary_text` -/
def textBytes (s : String) (tbl : Option Tbl) (info : Tok) : Except Err (List Nat) :=
  match tbl with
  | none => .error (nodeErr "table_is_not_defined" info)
  | some t => t.toBytes s.toList

def addrAdd (a : Address) (n : Nat) : Except Err Address :=
  match a.add n with
  | some a' => .ok a'
  | none => .error .key

/-- the emitter of an opcode node and its operand value (if it has an operand) -/
def opcodeEmitter (env : Env) (mn : String) (mode : AddrMode) (index : Option Idx) (info : Tok) : Except Err OpEntry :=
  match findEmitter env.opcodes mn mode index with
  | .error (.node msg _) => .error (nodeErr msg info)
  | x => x

/-- `node.pc_after(current_pc)` -/
def pcAfter (env : Env) (n : Node) (r : Resolver) (pc : Address) : Except Err (Resolver × Address) :=
  match n with
  | .label name => .ok (r.addLabel name pc.logical, pc)
  | .symbol name e =>
    match evalP env r e with
    | .error er => .error er
    | .ok v => .ok (r.addSymbol name v, pc)
  | .argSymbol name e =>
    -- `ArgumentNode.pc_after`: evaluate where the macro is applied (the parent of the application's scope), bind here
    match r.cur.parent with
    | none => .error .assertion
    | some par =>
      match evalP env { r with current := par } e with
      | .error er => .error er
      | .ok v => .ok (r.addSymbol name v, pc)
  | .symbolConst name v => .ok (r.addSymbol name v, pc)
  | .binary content base =>
    match addrAdd pc content.length with
    | .error er => .error er
    | .ok pc' => .ok ((r.addLabel base pc.logical).addSymbol (base ++ "__size") content.length, pc')
  | .data w _ _ => (addrAdd pc w).map fun a => (r, a)
  | .opcode mn size mode index value info =>
    match opcodeEmitter env mn mode index info with
    | .error er => .error er
    | .ok e =>
      -- `supposed_length`: evaluates the operand only when the width has to be inferred
      let len : Except Err Nat :=
        match e.kind with
        | .implied => .ok 1
        | .relative => .ok 2
        | .sized =>
          match value with
          | none => .error .runtime
          | some ve =>
            match size with
            | some w => .ok (1 + w)
            | none =>
              match getValue env r ve info with
              | .error er => .error er
              | .ok v => .ok (1 + operandSize v)
      match len with
      | .error er => .error er
      | .ok l => (addrAdd pc l).map fun a => (r, a)
  | .codePos e info | .reloc e info =>
    match getValue env r e info with
    | .error er => .error er
    | .ok v =>
      match r.getBus with
      | none => .error .key
      | some bus =>
        match Address.mk? bus v with
        | none => .error .key
        | some a => .ok (r, a)
  | .includeIps _ => .ok (r, pc)
  | .scopeEnter =>
    match r.useNextScope with
    | some r' => .ok (r', pc)
    | none => .error .index
  | .scopePop =>
    match r.restoreScope true with
    | some r' => .ok (r', pc)
    | none => .error .runtime
  | .table => .ok (r, pc)
  | .text s tbl info =>
    match textBytes s tbl info with
    | .error er => .error er
    | .ok bs => (addrAdd pc bs.length).map fun a => (r, a)
  | .ascii s => (addrAdd pc (asciiBytes s).length).map fun a => (r, a)

/-- `_check_label_address` (F02 repairs): the label still sits at the address it was resolved to, and the
    name evaluates to that address in its scope (it is not hidden by a `=` symbol or a block parameter) -/
def checkLabel (r : Resolver) (name : String) (cur : Address) : Except Err Unit :=
  if alookup name r.cur.labels = some (cur.logical : Int) then
    match r.valueFor name with
    | .int v => if v = (cur.logical : Int) then .ok () else .error (.node "label-hidden" (-1))
    | _ => .error (.node "label-hidden" (-1))
  else .error (.node "label-moved" (-1))

/-- `RelativeJumpOpcode.emit` -/
def emitRelative (r : Resolver) (e : OpEntry) (v : Int) : Except Err (List Nat) :=
  match r.reloc.physical with
  | none => .error .runtime
  | some _ =>
    match r.getBus with
    | none => .error .key
    | some bus =>
      match Address.mk? bus v with
      | none => .error .key
      | some dest =>
        match dest.physical with
        | none => .error .runtime
        | some pd =>
          match opcodeByte e 1 with
          | none => .error .other
          | some op =>
            match packB op, packSb (pd - r.pc - 2) with
            | some a, some b => .ok (a ++ b)
            | _, _ => .error .struct

/-- `node.emit(resolver.reloc_address)`: the node's bytes and the resolver afterwards -/
def emitNode (env : Env) (n : Node) (r : Resolver) : Except Err (Resolver × List Nat) :=
  match n with
  | .label name => (checkLabel r name r.reloc).map fun _ => (r, [])
  | .symbol _ _ => .ok (r, [])
  | .argSymbol _ _ => .ok (r, [])
  | .symbolConst _ _ => .ok (r, [])
  | .binary content base => (checkLabel r base r.reloc).map fun _ => (r, content)
  | .data w e info =>
    match getValue env r e info with
    | .error er => .error er
    | .ok v => .ok (r, leBytes w (v % ((256 ^ w : Nat) : Int)).toNat)
  | .opcode mn size mode index value info =>
    match opcodeEmitter env mn mode index info with
    | .error er => .error er
    | .ok e =>
      match e.kind with
      | .implied => (emitEntry e size none).map fun bs => (r, bs)
      | .relative =>
        match value with
        | none => .error .runtime
        | some ve =>
          match getValue env r ve info with
          | .error er => .error er
          | .ok v => (emitRelative r e v).map fun bs => (r, bs)
      | .sized =>
        match value with
        | none => .error .runtime
        | some ve =>
          -- with an explicit suffix `get_opcode_byte` runs (and may refuse the width) before the operand is evaluated
          if (match size with | some w => (opcodeByte e w).isNone | none => false) then .error (nodeErr "size" info)
          else
          match getValue env r ve info with
          | .error er => .error er
          | .ok v =>
            match emitEntry e size (some v) with
            | .error (.node msg _) => .error (nodeErr msg info)
            | .error er => .error er
            | .ok bs => .ok (r, bs)
  | .codePos e info | .reloc e info =>
    match getValue env r e info with
    | .error er => .error er
    | .ok v =>
      match r.setPosition v with
      | some r' => .ok (r', [])
      | none => .error .key
  | .includeIps _ => .ok (r, [])
  | .scopeEnter =>
    match r.useNextScope with
    | some r' => .ok (r', [])
    | none => .error .index
  | .scopePop =>
    match r.restoreScope false with
    | some r' => .ok (r', [])
    | none => .error .runtime
  | .table => .ok (r, [])
  | .text s tbl info => (textBytes s tbl info).map fun bs => (r, bs)
  | .ascii s => .ok (r, asciiBytes s)

def Node.isSymbol : Node → Bool | .symbol _ _ => true | .argSymbol _ _ => true | .symbolConst _ _ => true | _ => false
def Node.isLabelOrBinary : Node → Bool | .label _ => true | .binary _ _ => true | _ => false
def Node.isCodePos : Node → Bool | .codePos _ _ => true | _ => false

/-- one pass of `resolve_labels`: `skip` says which node classes the pass leaves out -/
def passLoop (env : Env) (skip : Node → Bool) : List Node → Resolver → Address → Except Err (Resolver × Address)
  | [], r, pc => .ok (r, pc)
  | n :: ns, r, pc =>
    if skip n then passLoop env skip ns r pc
    else
      match pcAfter env n r pc with
      | .error e => .error e
      | .ok (r', pc') => passLoop env skip ns r' pc'

/-- `resolver_reset` -/
def resolverReset (r : Resolver) : Resolver := { r with pc := 0, lastUsed := 0, current := 0 }

/-- `Program.resolve_labels` -/
def resolveLabels (env : Env) (nodes : List Node) (r : Resolver) : Except Err Resolver :=
  let r0 := { r with lastUsed := 0 }
  match passLoop env Node.isSymbol nodes r0 r0.reloc with
  | .error e => .error e
  | .ok (r1, _) =>
    let r1 := resolverReset r1
    match passLoop env Node.isLabelOrBinary nodes r1 r1.reloc with
    | .error e => .error e
    | .ok (r2, _) => .ok (resolverReset r2)

/-- ghost record of one emitted node: run address before the node, storage offset of its first byte, bytes -/
structure TraceRec where
  run : Nat
  storage : Int
  bytes : List Nat
  deriving Repr

structure EmitState where
  r : Resolver
  block : List Nat            -- `current_block`
  blockAddr : Int             -- `current_block_addr`
  writes : List (Int × List Nat)   -- `writer.write_block` calls, in order
  own : List (Int × List Nat)      -- ghost: the `write_block` calls that carry the program's own bytes
  trace : List TraceRec            -- ghost
  deriving Inhabited

/-- one iteration of the loop of `Program.emit` -/
def emitStep (env : Env) (n : Node) (st : EmitState) : Except Err EmitState :=
  match emitNode env n st.r with
  | .error e => .error e
  | .ok (r1, bs) =>
    let rec0 : TraceRec := ⟨st.r.reloc.logical, st.blockAddr + st.block.length, bs⟩
    let step : Except Err EmitState :=
      if bs.isEmpty then .ok { st with r := r1, trace := st.trace ++ [rec0] }
      else
        match addrAdd r1.reloc bs.length with
        | .error e => .error e
        | .ok a' =>
          .ok { st with r := { r1 with pc := r1.pc + bs.length, reloc := a' },
                        block := st.block ++ bs, trace := st.trace ++ [rec0] }
    match step with
    | .error e => .error e
    | .ok st1 =>
      let st2 :=
        if n.isCodePos then
          if st1.block.isEmpty then { st1 with blockAddr := st1.r.pc, block := [] }
          else { st1 with writes := st1.writes ++ [(st1.blockAddr, st1.block)],
                          own := st1.own ++ [(st1.blockAddr, st1.block)], blockAddr := st1.r.pc, block := [] }
        else st1
      match n with
      | .includeIps blocks => .ok { st2 with writes := st2.writes ++ blocks }
      | _ => .ok st2

/-- the loop of `Program.emit` -/
def emitLoop (env : Env) : List Node → EmitState → Except Err EmitState
  | [], st => .ok st
  | n :: ns, st =>
    match emitStep env n st with
    | .error e => .error e
    | .ok st' => emitLoop env ns st'

/-- `Program.emit` -/
def emitAll (env : Env) (nodes : List Node) (r : Resolver) : Except Err EmitState :=
  match emitLoop env nodes ⟨r, [], r.pc, [], [], []⟩ with
  | .error e => .error e
  | .ok st =>
    .ok (if st.block.isEmpty then st
         else { st with writes := st.writes ++ [(st.blockAddr, st.block)], own := st.own ++ [(st.blockAddr, st.block)], block := [] })

end A816
