-- This module serves as the root of the `A816` library.
-- Import modules here that should be built as part of the library.
import A816.Basic
