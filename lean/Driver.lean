import A816.Model.OpsBasic
import A816.Model.OpsExpr
import A816.Model.OpsCpu
import A816.Model.OpsIps
import A816.Model.OpsTable
import A816.Model.OpsScan
import A816.Model.OpsParse
import A816.Model.OpsAsm
import A816.Model.OpsFront
/-! Line-protocol driver: one operation per line on stdin, one canonical answer per line on stdout.
    This file contains the only `partial def` of the project (the I/O loop); no theorem imports it. -/
open A816

def handle (line : String) : String :=
  let ws := (line.splitOn " ").filter (· ≠ "")
  match Ops.handleBasic ws with
  | some r => r
  | none =>
  match Ops.handleExpr ws with
  | some r => r
  | none =>
  match Ops.handleCpu ws with
  | some r => r
  | none =>
  match Ops.handleIps ws with
  | some r => r
  | none =>
  match Ops.handleTable ws with
  | some r => r
  | none =>
  match Ops.handleScan ws with
  | some r => r
  | none =>
  match Ops.handleParse ws with
  | some r => r
  | none =>
  match Ops.handleAsm ws with
  | some r => r
  | none =>
  match Ops.handleFront ws with
  | some r => r
  | none => "bad-op"

partial def loop (hin hout : IO.FS.Stream) : IO Unit := do
  let line ← hin.getLine
  if line.isEmpty then return ()
  let l := if line.endsWith "\n" then (line.dropEnd 1).toString else line
  hout.putStrLn (handle l)
  loop hin hout

def main : IO Unit := do
  let hin ← IO.getStdin
  let hout ← IO.getStdout
  loop hin hout
  hout.flush
