"""Metamorphic twins of generated programs (DESIGN.md Appendix D): transformations on the statement
tree that must not change the emitted bytes / offsets / symbol values.  They involve only the real
assembler, so they are independent of the model."""
from __future__ import annotations

import re

NAME = re.compile(r"[A-Za-z_][A-Za-z_0-9.]*")


def names_in(text):
    return set(NAME.findall(text))


def map_stmts(stmts, f):
    """rebuild a statement tree, applying f to every statement (f returns a list of statements)"""
    out = []
    for s in stmts:
        k = s[0]
        if k == "block":
            s = ("block", map_stmts(s[1], f))
        elif k == "scope":
            s = ("scope", s[1], map_stmts(s[2], f))
        elif k == "macro":
            s = ("macro", s[1], s[2], map_stmts(s[3], f))
        elif k == "if":
            s = ("if", s[1], map_stmts(s[2], f), map_stmts(s[3], f) if s[3] is not None else None) + tuple(s[4:])
        elif k == "for":
            s = ("for", s[1], s[2], s[3], map_stmts(s[4], f)) + tuple(s[5:])
        elif k == "apply":
            s = ("apply", s[1], [("code", map_stmts(a[1], f)) if isinstance(a, tuple) else a for a in s[2]])
        out += f(s)
    return out


def walk(stmts):
    for s in stmts:
        yield s
        k = s[0]
        if k == "block":
            yield from walk(s[1])
        elif k == "scope":
            yield from walk(s[2])
        elif k == "macro":
            yield from walk(s[3])
        elif k == "if":
            yield from walk(s[2])
            if s[3] is not None:
                yield from walk(s[3])
        elif k == "for":
            yield from walk(s[4])
        elif k == "apply":
            for a in s[2]:
                if isinstance(a, tuple):
                    yield from walk(a[1])


def labels_in(stmts, with_incbin=True):
    out = [s[1] for s in walk(stmts) if s[0] == "label"]
    if with_incbin:
        out += [s[1].replace(".", "_") for s in walk(stmts) if s[0] == "incbin"]
    return out


def loop_local_names(stmts):
    """labels defined inside .for bodies or macro bodies (their scopes are per iteration / per application)"""
    out = set()
    for s in walk(stmts):
        if s[0] == "for":
            out.update(labels_in(s[4]))
        if s[0] == "macro":
            out.update(labels_in(s[3]))
        if s[0] == "apply":
            for a in s[2]:
                if isinstance(a, tuple):
                    out.update(labels_in(a[1]))
    return out


# ---------------------------------------------------------------------------------------------- C10
def value_of(text, env):
    """value of a generated expression text under env (names -> int), None when a name is unknown; the operators the
    generators use (+ - * << >> &, parentheses, decimal / hex literals) have Python's relative precedence in the
    property's conventional reading, so Python evaluates the text"""
    t = text.strip()
    names = [n for n in NAME.findall(t) if not re.fullmatch(r"x[0-9a-fA-F]+", n) or t[max(0, t.find(n) - 1)] != "0"]
    names = [n for n in re.findall(r"(?<![0-9A-Za-z_])[A-Za-z_][A-Za-z_0-9.]*", t)]
    if any(n not in env for n in names):
        return None
    if not re.fullmatch(r"[\sA-Za-z_0-9.()+\-*&<>]*", t):
        return None
    try:
        return int(eval(t, {"__builtins__": {}}, dict(env)))  # noqa: S307 - texts come from our own generator
    except Exception:  # noqa: BLE001
        return None


def expand_if_for(stmts):
    """hand expansion: .if -> the statements of the selected branch; .for -> one block per iteration binding the
    variable.  Done top-down with the values that are known at that point (:= constants of enclosing scopes, loop
    variables of enclosing unrolled loops); a condition that mentions a name whose value is not known there (a macro
    parameter, a symbol) is left as it is, a condition over a name nothing defines counts as false."""
    defined = set()
    for s in walk(stmts):
        if s[0] in ("const", "sym", "label"):
            defined.add(s[1])
        if s[0] == "macro":
            defined.update(s[2])
        if s[0] == "for":
            defined.add(s[1])

    def go(body, env, in_macro):
        env = dict(env)
        out = []
        for s in body:
            k = s[0]
            if k == "const":
                v = s[3] if len(s) > 3 and s[3] is not None else value_of(s[2], env)
                if v is None:
                    env.pop(s[1], None)
                else:
                    env[s[1]] = v
                out.append(s)
            elif k == "sym":
                env.pop(s[1], None)
                out.append(s)
            elif k == "block":
                out.append(("block", go(s[1], env, in_macro)))
            elif k == "scope":
                out.append(("scope", s[1], go(s[2], env, in_macro)))
            elif k == "macro":
                e2 = {a: b for a, b in env.items() if a not in s[2]}
                out.append(("macro", s[1], s[2], go(s[3], {}, True)))
            elif k == "apply":
                out.append(("apply", s[1], [("code", go(a[1], {}, True)) if isinstance(a, tuple) else a for a in s[2]]))
            elif k == "if":
                names = set(re.findall(r"(?<![0-9A-Za-z_])[A-Za-z_][A-Za-z_0-9.]*", s[1]))
                v = value_of(s[1], env)
                if v is None and names and not (names & defined) and not in_macro:
                    v = 0       # a name nothing defines: false
                if v is None or in_macro:
                    out.append(("if", s[1], go(s[2], env, in_macro), go(s[3], env, in_macro) if s[3] is not None else None))
                elif v != 0:
                    out += go(s[2], env, in_macro)
                elif s[3] is not None:
                    out += go(s[3], env, in_macro)
            elif k == "for":
                lo = s[5] if len(s) > 5 else value_of(s[2], env)
                hi = s[6] if len(s) > 6 else value_of(s[3], env)
                if lo is None or hi is None or in_macro:
                    e2 = dict(env)
                    e2.pop(s[1], None)
                    out.append(("for", s[1], s[2], s[3], go(s[4], e2, in_macro)) + tuple(s[5:]))
                else:
                    for i in range(lo, hi):
                        # the loop variable is bound like a `=` symbol: it has no value yet while the body is expanded
                        # (a condition on it sees an enclosing definition of that name, or nothing)
                        e2 = dict(env)
                        e2.pop(s[1], None)
                        out.append(("block", [("sym", s[1], str(i))] + go(s[4], e2, in_macro)))
            else:
                out.append(s)
        return out
    return go(stmts, {}, False)


# ---------------------------------------------------------------------------------------------- C09
def inline_macros(stmts, consts_visible=None):
    """each application replaced by a block that first evaluates the arguments at the call site into fresh
    temporaries, then (inner block) binds the parameters and holds the body; {{p}} replaced by the argument block"""
    macros = {}
    counter = [0]
    consts = set()

    def subst_lookup(body, codeargs):
        def g(s):
            if s[0] == "lookup" and s[1] in codeargs:
                return list(codeargs[s[1]])
            return [s]
        return map_stmts(body, g)

    def f(s):
        if s[0] == "const":
            consts.add(s[1])
        if s[0] == "macro":
            macros[s[1]] = (s[2], s[3])
            return []
        if s[0] == "apply" and s[1] in macros:
            params, body = macros[s[1]]
            outer, inner, codeargs = [], [], {}
            for p, a in zip(params, s[2]):
                if isinstance(a, tuple):
                    codeargs[p] = a[1]
                    continue
                counter[0] += 1
                t = f"tmp_arg_{counter[0]}"
                idents = set(re.findall(r"(?<![0-9A-Za-z_])[A-Za-z_][A-Za-z_0-9.]*", a))
                evaluable = all(n in consts for n in idents)
                if evaluable:
                    outer.append(("const", t, a, None))
                    inner.append(("const", p, t, None))
                else:
                    outer.append(("sym", t, a))
                    inner.append(("sym", p, t))
            body2 = subst_lookup(body, codeargs)
            # nested applications inside the body are expanded by the recursive map (body2 goes through f again)
            return [("block", outer + [("block", inner + map_stmts(body2, f))])]
        return [s]
    return map_stmts(stmts, f)


# ---------------------------------------------------------------------------------------------- C08
def rename(stmts, old, new):
    """consistent renaming of an identifier everywhere (names are whole identifiers or the last component of sc.name)"""
    pat = re.compile(r"(?<![A-Za-z_0-9])" + re.escape(old) + r"(?![A-Za-z_0-9])")

    def r(x):
        return pat.sub(new, x) if isinstance(x, str) else x

    def f(s):
        k = s[0]
        if k == "label":
            return [("label", r(s[1]))]
        if k in ("const", "sym"):
            return [(k, r(s[1]), r(s[2])) + tuple(s[3:])]
        if k == "instr":
            return [("instr", s[1], s[2], s[3], r(s[4]))]
        if k == "branch":
            return [("branch", s[1], r(s[2]))]
        if k == "data":
            return [("data", s[1], [r(e) for e in s[2]])]
        if k == "apply":
            return [("apply", s[1], [a if isinstance(a, tuple) else r(a) for a in s[2]])]
        if k == "if":
            return [("if", r(s[1])) + tuple(s[2:])]
        if k == "for":
            return [("for", s[1], r(s[2]), r(s[3]), s[4]) + tuple(s[5:])]
        return [s]
    return map_stmts(stmts, f)


def insert_unrelated(stmts, rng):
    """add a definition with a fresh name inside some inner scope (sibling / nested): nothing else may change"""
    blocks = [s for s in walk(stmts) if s[0] in ("block", "scope")]
    if not blocks:
        return None
    target = rng.choice(blocks)
    name = f"zz_unrelated_{rng.randrange(10**6)}"
    new = rng.choice([("const", name, "1", 1), ("label", name), ("sym", name, "2")])
    done = [False]

    def f(s):
        if s is target and not done[0]:
            done[0] = True
            body = list(s[1] if s[0] == "block" else s[2])
            body.insert(rng.randrange(0, len(body) + 1), new)
            return [("block", body)] if s[0] == "block" else [("scope", s[1], body)]
        return [s]
    out = map_stmts(stmts, f)
    return out if done[0] else None
