"""Metamorphic twins of generated programs (DESIGN.md Appendix D): transformations on the statement
tree that must not change the emitted bytes / offsets / symbol values.  They involve only the real
assembler, so they are independent of the model."""
from __future__ import annotations

import re

NAME = re.compile(r"[A-Za-z_][A-Za-z_0-9.]*")


def names_in(text):
    return set(NAME.findall(text))


def map_stmts(stmts, f):
    """rebuild a statement tree, applying f to every statement (f returns a list of statements)"""
    out = []
    for s in stmts:
        k = s[0]
        if k == "block":
            s = ("block", map_stmts(s[1], f))
        elif k == "scope":
            s = ("scope", s[1], map_stmts(s[2], f))
        elif k == "macro":
            s = ("macro", s[1], s[2], map_stmts(s[3], f))
        elif k == "if":
            s = ("if", s[1], map_stmts(s[2], f), map_stmts(s[3], f) if s[3] is not None else None) + tuple(s[4:])
        elif k == "for":
            s = ("for", s[1], s[2], s[3], map_stmts(s[4], f))
        elif k == "apply":
            s = ("apply", s[1], [("code", map_stmts(a[1], f)) if isinstance(a, tuple) else a for a in s[2]])
        out += f(s)
    return out


def walk(stmts):
    for s in stmts:
        yield s
        k = s[0]
        if k == "block":
            yield from walk(s[1])
        elif k == "scope":
            yield from walk(s[2])
        elif k == "macro":
            yield from walk(s[3])
        elif k == "if":
            yield from walk(s[2])
            if s[3] is not None:
                yield from walk(s[3])
        elif k == "for":
            yield from walk(s[4])
        elif k == "apply":
            for a in s[2]:
                if isinstance(a, tuple):
                    yield from walk(a[1])


def labels_in(stmts, with_incbin=True):
    out = [s[1] for s in walk(stmts) if s[0] == "label"]
    if with_incbin:
        out += [s[1].replace(".", "_") for s in walk(stmts) if s[0] == "incbin"]
    return out


def loop_local_names(stmts):
    """labels defined inside .for bodies or macro bodies (their scopes are per iteration / per application)"""
    out = set()
    for s in walk(stmts):
        if s[0] == "for":
            out.update(labels_in(s[4]))
        if s[0] == "macro":
            out.update(labels_in(s[3]))
        if s[0] == "apply":
            for a in s[2]:
                if isinstance(a, tuple):
                    out.update(labels_in(a[1]))
    return out


# ---------------------------------------------------------------------------------------------- C10
def truth(cond, consts):
    """value of a generated .if condition: literals, := constants, or an undefined name"""
    c = cond.strip()
    if re.fullmatch(r"-?\d+", c):
        return int(c) != 0
    if c in consts:
        return consts[c] != 0
    return False  # an undefined name counts as false


def expand_if_for(stmts):
    """hand expansion: .if -> the statements of the selected branch; .for -> one block per iteration binding the variable"""
    consts = {}

    def f(s):
        if s[0] == "const":
            consts[s[1]] = s[3]
        if s[0] == "if":
            t = truth(s[1], consts)
            return list(s[2]) if t else (list(s[3]) if s[3] is not None else [])
        if s[0] == "for":
            lo, hi = int(s[2], 0), int(s[3], 0)
            out = []
            for k in range(lo, hi):
                out.append(("block", [("sym", s[1], str(k))] + list(s[4])))
            return out
        return [s]
    return map_stmts(stmts, f)


# ---------------------------------------------------------------------------------------------- C09
def inline_macros(stmts, consts_visible=None):
    """each application replaced by a block that first evaluates the arguments at the call site into fresh
    temporaries, then (inner block) binds the parameters and holds the body; {{p}} replaced by the argument block"""
    macros = {}
    counter = [0]
    consts = set()

    def subst_lookup(body, codeargs):
        def g(s):
            if s[0] == "lookup" and s[1] in codeargs:
                return list(codeargs[s[1]])
            return [s]
        return map_stmts(body, g)

    def f(s):
        if s[0] == "const":
            consts.add(s[1])
        if s[0] == "macro":
            macros[s[1]] = (s[2], s[3])
            return []
        if s[0] == "apply" and s[1] in macros:
            params, body = macros[s[1]]
            outer, inner, codeargs = [], [], {}
            for p, a in zip(params, s[2]):
                if isinstance(a, tuple):
                    codeargs[p] = a[1]
                    continue
                counter[0] += 1
                t = f"tmp_arg_{counter[0]}"
                evaluable = all((n in consts) or re.fullmatch(r"0x[0-9a-fA-F]+|\d+", n) for n in names_in(a) | set())
                evaluable = evaluable and not (names_in(a) - consts - {n for n in names_in(a) if re.fullmatch(r"x[0-9a-fA-F]+", n)})
                if evaluable:
                    outer.append(("const", t, a, None))
                    inner.append(("const", p, t, None))
                else:
                    outer.append(("sym", t, a))
                    inner.append(("sym", p, t))
            body2 = subst_lookup(body, codeargs)
            # nested applications inside the body are expanded by the recursive map (body2 goes through f again)
            return [("block", outer + [("block", inner + map_stmts(body2, f))])]
        return [s]
    return map_stmts(stmts, f)


# ---------------------------------------------------------------------------------------------- C08
def rename(stmts, old, new):
    """consistent renaming of an identifier everywhere (names are whole identifiers or the last component of sc.name)"""
    pat = re.compile(r"(?<![A-Za-z_0-9])" + re.escape(old) + r"(?![A-Za-z_0-9])")

    def r(x):
        return pat.sub(new, x) if isinstance(x, str) else x

    def f(s):
        k = s[0]
        if k == "label":
            return [("label", r(s[1]))]
        if k in ("const", "sym"):
            return [(k, r(s[1]), r(s[2])) + tuple(s[3:])]
        if k == "instr":
            return [("instr", s[1], s[2], s[3], r(s[4]))]
        if k == "branch":
            return [("branch", s[1], r(s[2]))]
        if k == "data":
            return [("data", s[1], [r(e) for e in s[2]])]
        if k == "apply":
            return [("apply", s[1], [a if isinstance(a, tuple) else r(a) for a in s[2]])]
        if k == "if":
            return [("if", r(s[1])) + tuple(s[2:])]
        if k == "for":
            return [("for", s[1], r(s[2]), r(s[3]), s[4])]
        return [s]
    return map_stmts(stmts, f)


def insert_unrelated(stmts, rng):
    """add a definition with a fresh name inside some inner scope (sibling / nested): nothing else may change"""
    blocks = [s for s in walk(stmts) if s[0] in ("block", "scope")]
    if not blocks:
        return None
    target = rng.choice(blocks)
    name = f"zz_unrelated_{rng.randrange(10**6)}"
    new = rng.choice([("const", name, "1", 1), ("label", name), ("sym", name, "2")])
    done = [False]

    def f(s):
        if s is target and not done[0]:
            done[0] = True
            body = list(s[1] if s[0] == "block" else s[2])
            body.insert(rng.randrange(0, len(body) + 1), new)
            return [("block", body)] if s[0] == "block" else [("scope", s[1], body)]
        return [s]
    out = map_stmts(stmts, f)
    return out if done[0] else None
