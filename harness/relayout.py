"""Presentation changes of C16 applied to a rendered program (list of canonical statement lines):
blank lines, indentation, trailing blanks, full-line and end-of-line `;` comments, own-line `/* */` comments,
spaces next to operators / commas / inside brackets, letter case of mnemonics, size suffixes, index registers and
hexadecimal digits, and moving a run of top-level statements into an `.include`d file."""
from __future__ import annotations

import re

MN = re.compile(r"^([a-z]{3})(\.[bwl])?( .*)?$")
COMMENT_WORDS = ["c", "TODO x:=1", "lda #1", "'quote", "*/ not a terminator here", "/* not an opener here", "{", "}", "é",
                 # characters whose upper/lower-case forms have another length or are ASCII letters
                 "\u0130LK ADIM", "gro\u1e9e stra\u00dfe", "\u01c5 \ufb03", "273 \u212a / 1 \u212b", "\U0001d400 nop", "\u03a3\u03c2 lda"]


def case_word(w, rng):
    r = rng.random()
    if r < 0.4:
        return w
    if r < 0.7:
        return w.upper()
    return "".join(c.upper() if rng.random() < 0.5 else c for c in w)


def relayout_operand(op, rng):
    """spaces after `#` and opening brackets, before closing brackets, around operators and commas; index/hex case"""
    out = []
    i = 0
    sp = lambda: " " * rng.choice([0, 0, 1, 2])  # noqa: E731
    while i < len(op):
        c = op[i]
        two = op[i:i + 2]
        if two in ("<<", ">>"):
            out.append(sp() + two + sp())
            i += 2
            continue
        if op[i:i + 2] == "0x":
            j = i + 2
            while j < len(op) and op[j] in "0123456789abcdefABCDEF":
                j += 1
            digits = op[i + 2:j]
            out.append("0x" + case_word(digits, rng))
            i = j
            continue
        if c in "#([":
            out.append(c + sp())
        elif c in ")]":
            # between the expression and its closing bracket; not between an inner index register and the bracket
            # (`(e,s )` is outside the listed presentation changes: the closing bracket must follow the register)
            prev = "".join(out).rstrip()
            after_index = bool(re.search(r",\s*[xysXYS]$", prev))
            out.append(("" if after_index else sp()) + c)
        elif c == ",":
            # an index register follows a comma inside an operand
            m = re.match(r",\s*([xysXYS])(?![A-Za-z0-9_])", op[i:])
            if m:
                out.append(sp() + "," + sp() + case_word(m.group(1), rng))
                i += m.end()
                continue
            out.append(sp() + "," + sp())
        elif c in "+-*&|":
            out.append(sp() + c + sp())
        elif c == " ":
            out.append(sp() or " ")
        else:
            out.append(c)
        i += 1
    return "".join(out)


def relayout_line(line, rng, mnemonics):
    """one canonical statement line -> an equivalent line"""
    m = MN.match(line)
    if m and m.group(1) in mnemonics:
        mn, sfx, rest = m.group(1), m.group(2) or "", m.group(3)
        head = case_word(mn, rng) + case_word(sfx, rng)
        if rest is None:
            return head
        return head + " " * rng.choice([1, 1, 2, 3]) + relayout_operand(rest.strip(), rng)
    if line.startswith((".db ", ".dw ", ".dl ", ".pointer ")) or re.match(r"^[A-Za-z_][A-Za-z_0-9.]* (:=|=) ", line):
        head, rest = line.split(" ", 1)
        if head.startswith("."):
            return head + " " * rng.choice([1, 2]) + relayout_operand(rest, rng).replace("0X", "0x")
        name, op, expr = line.split(" ", 2)
        return name + " " * rng.choice([0, 1, 2]) + op + " " * rng.choice([0, 1, 2]) + relayout_operand(expr, rng)
    return line


def relayout(lines, rng, mnemonics, files=None):
    """returns (new lines, new files)"""
    files = dict(files or {})
    out = []
    depth_multiline_arg = 0
    for line in lines:
        # lines inside a multi-line macro argument are statements too; `name({` opens one
        new = relayout_line(line, rng, mnemonics)
        r = rng.random()
        if r < 0.15:
            out.append("")
        elif r < 0.25:
            out.append(" " * rng.randrange(0, 4) + "; " + rng.choice(COMMENT_WORDS))
        elif r < 0.32:
            out.append(rng.choice(["/* block */", "/* \u0130 */", "/* see /* below */", "/* /* */", "/*/* x */", "/* a /* b\nc */", "/* multi\nline */", "/* * stars * */", "/* x := 9 */", "/** doc **/", "/***/", "/**** x ****/", "/**/", "/* a * / b */"]))
        indent = rng.choice(["", "", "  ", "\t", "    "])
        trail = rng.choice(["", "", " ", "  "])
        eol = ""
        # end-of-line comment: never after an opening `{` of a macro argument list line or inside strings (none here)
        if rng.random() < 0.25 and not new.rstrip().endswith(("({", ",")) and not new.startswith("."):
            eol = " " * rng.choice([1, 2]) + "; " + rng.choice(COMMENT_WORDS)
        out.append(indent + new + trail + eol)
    if rng.random() < 0.3:
        out.append("")
    return out, files


def move_to_include(stmts_lines_top, rng, name="part_zq.s"):
    """stmts_lines_top: list of rendered top-level statements (each a list of lines). Moves a contiguous run into a file."""
    n = len(stmts_lines_top)
    if n < 2:
        return None
    i = rng.randrange(0, n - 1)
    j = rng.randrange(i + 1, n + 1)
    inc = [l for st in stmts_lines_top[i:j] for l in st]
    main = [l for st in stmts_lines_top[:i] for l in st] + [f".include '{name}'"] + [l for st in stmts_lines_top[j:] for l in st]
    return main, {name: "\n".join(inc) + "\n"}
