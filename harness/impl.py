"""Access to the real a816 code (imported from the /repo working tree, in-process)."""
from __future__ import annotations

import contextlib
import io
import logging
import os
import sys
import warnings

from core import REPO, Timeout, watchdog

if REPO not in sys.path:
    sys.path.insert(0, REPO)
warnings.simplefilter("ignore")
logging.disable(logging.CRITICAL)


@contextlib.contextmanager
def quiet():
    """the real code prints from several places (Parser.parse, RelativeJumpOpcode.emit, Scanner.add_error)"""
    with contextlib.redirect_stdout(io.StringIO()), contextlib.redirect_stderr(io.StringIO()):
        yield


class CollectWriter:
    def __init__(self):
        self.blocks = []

    def begin(self):
        pass

    def end(self):
        pass

    def write_block_header(self, block, block_address):
        pass

    def write_block(self, block, block_address):
        self.blocks.append((block_address, bytes(block)))


def labels_of(resolver):
    """get_all_labels() as a list of (name, value) pairs, whatever container the code returns them in"""
    ls = resolver.get_all_labels()
    if isinstance(ls, dict):
        return list(ls.items())
    return [tuple(x) for x in ls]


def flatten(blocks):
    """ordered list of (file offset, byte)"""
    out = []
    for addr, data in blocks:
        for k, b in enumerate(data):
            out.append((addr + k, b))
    return out


def bus_of(name: str):
    from a816 import symbols

    return {"low": symbols.low_rom_bus, "high": symbols.high_rom_bus}[name]


def user_bus(directives):
    """directives: list of (ident, lo, hi, mask, ram, mirror or None) applied to an empty Bus through Bus.map"""
    from a816.cpu.mapping import Bus

    b = Bus()
    for d in directives:
        if d[0] == "unmap":
            b.unmap(d[1])
            continue
        ident, lo, hi, mask, ram, mirror = d
        kw = {}
        if ram:
            kw["writeable"] = 1  # what `.map writable=1` passes (an int, never the bool False)
        b.map(ident, (lo, hi), (0, 0xFFFF), mask, mirror_bank_range=mirror, **kw)
    return b


def phys_code(bus, a: int) -> int:
    """same integer code as Ops.physCode"""
    try:
        p = bus.get_address(a).physical
    except Exception:
        return 0
    if p is None:
        return 1
    return 4 + 2 * p if p >= 0 else 5 + 2 * (-p)


def add_code(bus, a: int, n: int) -> int:
    try:
        v = (bus.get_address(a) + n).logical_value
    except Exception:
        return 0
    return 1 + v


def assemble(src: str, rom: str = "low_rom", defines=None, cwd: str | None = None, timeout: float = 20.0):
    """in-memory assembly: returns dict(status, error, writes(blocks), labels, exc)"""
    from a816.cpu.cpu_65c816 import RomType
    from a816.program import Program

    old = os.getcwd()
    if cwd:
        os.chdir(cwd)
    w = CollectWriter()
    res = {"status": "ok", "error": None, "blocks": w.blocks, "labels": [], "exc": None}
    try:
        with quiet(), watchdog(timeout):
            p = Program()
            p.resolver.rom_type = RomType[rom]
            for k, v in defines or []:
                p.resolver.current_scope.add_symbol(k, v)
            err = p.assemble_string_with_emitter(src, "main.s", w)
            if err is not None:
                res["status"] = "rejected"
                res["error"] = err
            res["labels"] = labels_of(p.resolver)
    except Timeout:
        res["status"] = "timeout"
    except RecursionError as e:
        res["status"] = "rejected"
        res["exc"] = "RecursionError"
    except BaseException as e:  # noqa: BLE001 - every exception class is a rejection
        if isinstance(e, (KeyboardInterrupt, SystemExit, MemoryError)):
            raise
        res["status"] = "rejected"
        res["exc"] = {"error": "struct.error", "FileNotFoundError": "OSError"}.get(type(e).__name__, type(e).__name__)
        res["error"] = str(e)[:300]
    finally:
        if cwd:
            os.chdir(old)
    return res


def write_files(tmp, files, bins):
    for k, v in (files or {}).items():
        with open(os.path.join(tmp, k), "w", encoding="utf-8") as fh:
            fh.write(v)
    for k, v in (bins or {}).items():
        with open(os.path.join(tmp, k), "wb") as fh:
            fh.write(v)


def fs_args(files, bins):
    """driver encoding of the virtual file system"""
    hx = lambda s: s.encode("utf-8").hex() or "-"  # noqa: E731
    t = ",".join(f"{hx(k)}={hx(v)}" for k, v in (files or {}).items()) or "-"
    b = ",".join(f"{hx(k)}={v.hex() or '-'}" for k, v in (bins or {}).items()) or "-"
    return t, b


def trace_assemble(src: str, rom: str = "low_rom", cwd: str | None = None, timeout: float = 20.0, defines=None):
    """Assemble through the real code with per-node instance wrappers (no change to /repo):
    returns status/exc/error, blocks, labels (raw order), and per node: class, pass-1 address, run address at
    emission, emitted bytes, target value of *= / @= nodes.  Falls back to the plain API when the internal
    attribute names it relies on are gone."""
    from a816.cpu.cpu_65c816 import RomType
    from a816.program import Program

    old = os.getcwd()
    if cwd:
        os.chdir(cwd)
    w = CollectWriter()
    res = {"status": "ok", "error": None, "exc": None, "blocks": w.blocks, "labels": [], "nodes": None, "symbols": {}}
    try:
        with quiet(), watchdog(timeout):
            p = Program()
            p.resolver.rom_type = RomType[rom]
            for k, v in defines or []:
                p.resolver.current_scope.add_symbol(k, v)
            try:
                err, nodes = p.parser.parse(src, "main.s")
                wrapped = True
            except AttributeError:
                wrapped = False
            if not wrapped:
                err = p.assemble_string_with_emitter(src, "main.s", w)
            else:
                recs = []
                if err is None:
                    for n in nodes:
                        rec = {"cls": type(n).__name__, "pass1": None, "run": None, "bytes": None, "name": getattr(n, "symbol_name", None) or getattr(n, "symbol_base", None)}
                        recs.append(rec)

                        def mk(n=n, rec=rec):
                            orig_pc, orig_emit = n.pc_after, n.emit
                            state = {"first": True}

                            def pc_after(cur):
                                if state["first"]:
                                    rec["pass1"] = cur.logical_value
                                    state["first"] = False
                                return orig_pc(cur)

                            def emit(cur):
                                rec["run"] = cur.logical_value
                                rec["pc"] = n.resolver.pc if hasattr(n, "resolver") else None
                                if rec["cls"] in ("LabelNode", "BinaryNode"):
                                    rec["label_value"] = n.resolver.current_scope.labels.get(rec["name"])
                                    rec["symbol_value"] = n.resolver.current_scope.symbols.get(rec["name"])
                                    rec["scope_cls"] = type(n.resolver.current_scope).__name__
                                b = orig_emit(cur)
                                rec["bytes"] = bytes(b)
                                if rec["cls"] in ("CodePositionNode", "RelocationAddressNode"):
                                    vn = getattr(n, "value_node", None) or getattr(n, "pc_value_node", None)
                                    rec["target"] = vn.get_value()
                                if rec["cls"] in ("ByteNode", "WordNode", "LongNode", "PointerNode"):
                                    try:
                                        rec["value"] = n.value_node.get_value()
                                    except Exception:  # noqa: BLE001
                                        rec["value"] = None
                                if rec["cls"] == "AsciiNode":
                                    rec["text"] = n.text
                                if rec["cls"] == "BinaryNode":
                                    rec["path"] = n.file_path
                                if rec["cls"] == "IncludeIpsNode":
                                    rec["blocks"] = [(a, bytes(d)) for a, d in n.blocks]
                                if rec["cls"] == "OpcodeNode":
                                    rec["opcode"] = n.opcode
                                    rec["mode"] = n.addressing_mode.name
                                    try:
                                        pos = n.file_info.position
                                        rec["line"], rec["file"] = pos.line, pos.file.filename
                                    except Exception:  # noqa: BLE001
                                        rec["line"], rec["file"] = None, None
                                    try:
                                        rec["value"] = n.value_node.get_value() if n.value_node is not None else None
                                    except Exception:  # noqa: BLE001
                                        rec["value"] = None
                                return b
                            n.pc_after, n.emit = pc_after, emit
                        mk()
                    p.resolve_labels(nodes)
                    p.emit(nodes, w)
                    # nodes the emission loop did not hand to `emit` (a refactoring may skip classes that emit nothing): their
                    # run address is that of the next emitted node when no position directive lies between, and a label's
                    # value is read from the label table when the name is defined once
                    all_labels = labels_of(p.resolver)
                    for i, rec in enumerate(recs):
                        if rec["run"] is None:
                            rec["not_emitted"] = True
                            for nxt in recs[i + 1:]:
                                if nxt["cls"] in ("CodePositionNode", "RelocationAddressNode"):
                                    break
                                if nxt["run"] is not None:
                                    rec["run"] = nxt["run"]
                                    break
                            if rec["cls"] in ("LabelNode", "BinaryNode"):
                                vals = [v for k, v in all_labels if k == rec["name"]]
                                if len(vals) == 1:
                                    rec["label_value"] = rec["symbol_value"] = vals[0]
                    res["nodes"] = recs
            if err is not None:
                res["status"] = "rejected"
                res["error"] = err
            res["labels"] = labels_of(p.resolver)
            res["symbols"] = dict(p.resolver.scopes[0].symbols)
    except Timeout:
        res["status"] = "timeout"
    except BaseException as e:  # noqa: BLE001
        if isinstance(e, (KeyboardInterrupt, SystemExit, MemoryError)):
            raise
        res["status"] = "rejected"
        res["exc"] = {"error": "struct.error", "FileNotFoundError": "OSError"}.get(type(e).__name__, type(e).__name__)
        res["error"] = str(e)[:300]
    finally:
        if cwd:
            os.chdir(old)
    return res


def canon(res):
    """canonical text of an assembly result, comparable with the driver's `asm` answer (without trace)"""
    hx = lambda s: s.encode("utf-8").hex() or "-"  # noqa: E731
    if res["status"] == "ok":
        wr = ";".join(f"{a}:{d.hex() or '-'}" for a, d in res["blocks"]) or "-"
        lb = ";".join(f"{hx(k)}={v}" for k, v in res["labels"]) or "-"
        return f"ok W={wr} L={lb}"
    if res["status"] == "timeout":
        return "raised OUT-OF-FUEL"
    if res["exc"] is None:
        return "error"
    return "raised " + res["exc"]


def same_outcome(c: str, mm: str) -> bool:
    """canonical results agree: identical, or both are a propagated exception (the Python exception *type* is not
    compared — a refactor that turns a KeyError into a NodeError, or an odd input such as a NUL byte in a file name
    that makes open() raise ValueError instead of OSError, is not a difference); a hang is never equal to a raise"""
    if c == mm:
        return True
    hang = "raised OUT-OF-FUEL"
    return c.startswith("raised ") and mm.startswith("raised ") and c != hang and mm != hang


def canon_model(ans: str) -> str:
    if ans.startswith("ok"):
        return ans.split(" T=")[0]
    if ans.startswith("error"):
        return "error"
    if ans.startswith("raised NodeError"):
        return "raised NodeError"
    return ans
