"""Access to the real a816 code (imported from the /repo working tree, in-process)."""
from __future__ import annotations

import contextlib
import io
import logging
import os
import sys
import warnings

from core import REPO, Timeout, watchdog

if REPO not in sys.path:
    sys.path.insert(0, REPO)
warnings.simplefilter("ignore")
logging.disable(logging.CRITICAL)


@contextlib.contextmanager
def quiet():
    """the real code prints from several places (Parser.parse, RelativeJumpOpcode.emit, Scanner.add_error)"""
    with contextlib.redirect_stdout(io.StringIO()), contextlib.redirect_stderr(io.StringIO()):
        yield


class CollectWriter:
    def __init__(self):
        self.blocks = []

    def begin(self):
        pass

    def end(self):
        pass

    def write_block_header(self, block, block_address):
        pass

    def write_block(self, block, block_address):
        self.blocks.append((block_address, bytes(block)))


def flatten(blocks):
    """ordered list of (file offset, byte)"""
    out = []
    for addr, data in blocks:
        for k, b in enumerate(data):
            out.append((addr + k, b))
    return out


def bus_of(name: str):
    from a816 import symbols

    return {"low": symbols.low_rom_bus, "high": symbols.high_rom_bus}[name]


def user_bus(directives):
    """directives: list of (ident, lo, hi, mask, ram, mirror or None) applied to an empty Bus through Bus.map"""
    from a816.cpu.mapping import Bus

    b = Bus()
    for ident, lo, hi, mask, ram, mirror in directives:
        kw = {}
        if ram:
            kw["writeable"] = 1  # what `.map writable=1` passes (an int, never the bool False)
        b.map(ident, (lo, hi), (0, 0xFFFF), mask, mirror_bank_range=mirror, **kw)
    return b


def phys_code(bus, a: int) -> int:
    """same integer code as Ops.physCode"""
    try:
        p = bus.get_address(a).physical
    except Exception:
        return 0
    if p is None:
        return 1
    return 4 + 2 * p if p >= 0 else 5 + 2 * (-p)


def add_code(bus, a: int, n: int) -> int:
    try:
        v = (bus.get_address(a) + n).logical_value
    except Exception:
        return 0
    return 1 + v


def assemble(src: str, rom: str = "low_rom", defines=None, cwd: str | None = None, timeout: float = 20.0):
    """in-memory assembly: returns dict(status, error, writes(blocks), labels, exc)"""
    from a816.cpu.cpu_65c816 import RomType
    from a816.program import Program

    old = os.getcwd()
    if cwd:
        os.chdir(cwd)
    w = CollectWriter()
    res = {"status": "ok", "error": None, "blocks": w.blocks, "labels": [], "exc": None}
    try:
        with quiet(), watchdog(timeout):
            p = Program()
            p.resolver.rom_type = RomType[rom]
            for k, v in defines or []:
                p.resolver.current_scope.add_symbol(k, v)
            err = p.assemble_string_with_emitter(src, "main.s", w)
            if err is not None:
                res["status"] = "rejected"
                res["error"] = err
            res["labels"] = sorted(p.resolver.get_all_labels())
    except Timeout:
        res["status"] = "timeout"
    except RecursionError as e:
        res["status"] = "rejected"
        res["exc"] = "RecursionError"
    except BaseException as e:  # noqa: BLE001 - every exception class is a rejection
        if isinstance(e, (KeyboardInterrupt, SystemExit, MemoryError)):
            raise
        res["status"] = "rejected"
        res["exc"] = type(e).__name__
        res["error"] = str(e)[:300]
    finally:
        if cwd:
            os.chdir(old)
    return res
