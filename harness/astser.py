"""Canonical serialisation of the real a816 AST / tokens, mirroring lean/A816/Model/OpsParse.lean."""
from __future__ import annotations


def hx(s: str) -> str:
    return s.encode("utf-8").hex() or "-"


def ser_node(n):
    from a816.parse.ast.nodes import BinOp, Parenthesis, Term, UnaryOp
    from a816.parse.tokens import TokenType
    if isinstance(n, Term):
        k = "N:" if n.token.type == TokenType.NUMBER else "I:" if n.token.type == TokenType.IDENTIFIER else "O:"
        return k + hx(n.token.value)
    if isinstance(n, BinOp):
        return "B:" + hx(n.token.value)
    if isinstance(n, UnaryOp):
        return "U:" + hx(n.token.value)
    if isinstance(n, Parenthesis):
        return "(" if n.token.type == TokenType.LPAREN else ")"
    return "?"


def ser_expr(e):
    return "E<" + ",".join(ser_node(n) for n in e.tokens) + ">"


def ser_info(t):
    if t is None or t.position is None:
        return "@-"
    p = t.position
    return f"@{hx(p.file.filename)}:{p.line}:{p.column}"


def ser_list(nodes):
    return ";".join(ser_ast(n) for n in nodes)


def ser_mapval(v):
    if isinstance(v, tuple):
        return f"{v[0]}:{v[1]}"
    return str(v)


def ser_ast(n):
    from a816.parse.ast import nodes as A
    i = ser_info(n.file_info)
    k = n.kind
    if isinstance(n, A.LabelAstNode):
        return f"label({hx(n.label)}){i}"
    if isinstance(n, A.TextAstNode):
        return f"text({hx(n.text)}){i}"
    if isinstance(n, A.AsciiAstNode):
        return f"ascii({hx(n.text)}){i}"
    if isinstance(n, A.ScopeAstNode):
        return f"scope({hx(n.name)},[{ser_list(n.body.body)}]){i}"
    if isinstance(n, A.CodePositionAstNode):
        return f"star_eq({ser_expr(n.expression)}){i}"
    if isinstance(n, A.CodeRelocationAstNode):
        return f"at_eq({ser_expr(n.expression)}){i}"
    if isinstance(n, A.MapAstNode):
        return "map(" + "|".join(f"{k2}={ser_mapval(v)}" for k2, v in n.args.items()) + ")" + i
    if isinstance(n, A.IfAstNode):
        return f"if({ser_expr(n.expression)},[{ser_list(n.block.body)}]," + ("[" + ser_list(n.else_block.body) + "]" if n.else_block else "-") + ")" + i
    if isinstance(n, A.MacroAstNode):
        return f"macro({hx(n.name)},{','.join(hx(a) for a in n.args)},[{ser_list(n.block.body)}]){i}"
    if isinstance(n, A.MacroApplyAstNode):
        args = "|".join(ser_expr(a) if isinstance(a, A.ExpressionAstNode) else "B[" + ser_list(a.body) + "]" for a in n.args)
        return f"apply({hx(n.name)},{args}){i}"
    if isinstance(n, A.DataNode):
        return f"{k}({'|'.join(ser_expr(e) for e in n.data)}){i}"
    if isinstance(n, A.TableAstNode):
        return f"table({hx(n.file_path)}){i}"
    if isinstance(n, A.IncludeIpsAstNode):
        return f"include_ips({hx(n.file_path)},{ser_expr(n.expression)}){i}"
    if isinstance(n, A.IncludeBinaryAstNode):
        return f"incbin({hx(n.file_path)}){i}"
    if isinstance(n, A.SymbolAffectationAstNode):
        return f"symbol({hx(n.symbol)},{ser_expr(n.value)}){i}"
    if isinstance(n, A.AssignAstNode):
        return f"assign({hx(n.symbol)},{ser_expr(n.value)}){i}"
    if isinstance(n, A.CodeLookupAstNode):
        return f"lookup({hx(n.symbol)}){i}"
    if isinstance(n, A.StructAstNode):
        return f"struct({hx(n.name)}){i}"
    if isinstance(n, A.ForAstNode):
        return f"for({hx(n.symbol)},{ser_expr(n.min_value)},{ser_expr(n.max_value)},[{ser_list(n.body.body)}]){i}"
    if isinstance(n, A.OpcodeAstNode):
        sz = {None: "-", "b": "1", "w": "2", "l": "3"}[n.value_size]
        return f"op({n.addressing_mode.name},{hx(n.opcode)},{sz}," + (ser_expr(n.operand) if n.operand else "-") + "," + (n.index if n.index else "-") + ")" + i
    if isinstance(n, A.CompoundAstNode):
        return f"compound[{ser_list(n.body)}]{i}"
    if isinstance(n, A.BlockAstNode):
        return f"block[{ser_list(n.body)}]{i}"
    return f"?{k}"


def real_parse(src: str, cwd=None, timeout=10.0):
    """scanner + parser of the real code, serialised like the driver's `parse` op"""
    import os
    import core
    import impl
    from a816.parse.errors import ParserSyntaxError, ScannerException
    from a816.parse.parser import Parser
    from a816.parse.parser_states import parse_initial
    from a816.parse.scanner import Scanner
    from a816.parse.scanner_states import lex_initial
    old = os.getcwd()
    if cwd:
        os.chdir(cwd)
    try:
        with impl.quiet(), core.watchdog(timeout):
            sc = Scanner(lex_initial)
            toks = sc.scan("main.s", src)
            ast = Parser(toks, parse_initial).parse()
        return "ok " + ser_list(ast)
    except core.Timeout:
        return "timeout"
    except ScannerException as e:
        p = e.position
        return f"err scan {hx(str(e))} {hx(p.file.filename)} {p.line} {p.column}"
    except ParserSyntaxError as e:
        t = e.token
        if t.position is None:
            return "err parse-nopos"
        return f"err parse {hx(t.position.file.filename)} {t.position.line} {t.position.column} {t.type.name} {len(t.value)}"
    except RecursionError:
        return "exc RecursionError"
    except Exception as e:  # noqa: BLE001
        n = type(e).__name__
        return "exc " + {"FileNotFoundError": "OSError", "IsADirectoryError": "OSError", "error": "struct.error", "SyntaxError": "Exception", "ValueError": "Exception", "UnicodeDecodeError": "Exception"}.get(n, n)
    finally:
        if cwd:
            os.chdir(old)
