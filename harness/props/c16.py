"""C16 — layout independence: generated programs and the repository's samples vs relayouted twins on the real
assembler; correspondence of the relayouted text with the model."""
from __future__ import annotations

import os

import core
import gen_program
import impl
import pipeline
import relayout
from props.scoping import outputs
from props.layout import stat_key


def run(ctx):
    tier, seed = ctx["tier"], ctx["seed"]
    rng = core.rng_for(seed, "c16")
    run_ = pipeline.Runner()
    try:
        mnemonics = set(run_.drv.ask(["mnemonics"])[0].split())
        s = core.Stream("S4-relayout", "generated programs (and the repository's sample sources) vs twins obtained by random compositions of the listed presentation changes at every applicable position: blank lines, indentation (spaces/tabs), trailing blanks, full-line and end-of-line ';' comments, own-line '/* */' comments (also multi-line), spaces next to operators / commas / after '#' and brackets, letter case of mnemonics, size suffixes, index registers and hex digits, a run of top-level statements moved into an .include'd file; flattened writes and all label values must be equal; the relayouted text is also run through the model; non-trivial = distinct (rom, change kinds applied)")
        n = 200 if tier == "quick" else 1500
        progs = pipeline.gen_batch(rng, run_.drv, n)
        twins_ = []
        for pr in progs:
            lines = gen_program.render(pr["stmts"])
            for k in range(2 if tier == "quick" else 3):
                new, files = relayout.relayout(lines, rng, mnemonics, pr["files"])
                twins_.append((pr, "relayout", dict(pr, src="\n".join(new) + "\n", files=files)))
            # the last line with and without its final newline / with trailing blanks or an end-of-line comment
            base_lines = list(lines)
            twins_.append((pr, "no-final-newline", dict(pr, src="\n".join(base_lines))))
            twins_.append((pr, "final-blank", dict(pr, src="\n".join(base_lines) + rng.choice([" ", " ; end", "\n\n", "\t"]))))
            top = [gen_program.render([st]) for st in pr["stmts"]]
            mv = relayout.move_to_include(top, rng)
            if mv:
                main, extra = mv
                files = dict(pr["files"])
                files.update(extra)
                twins_.append((pr, "include", dict(pr, src="\n".join(main) + "\n", files=files)))
                # and both at once
                new, _ = relayout.relayout(main, rng, mnemonics)
                inc_new, _ = relayout.relayout(extra["part_zq.s"].rstrip("\n").split("\n"), rng, mnemonics)
                files2 = dict(pr["files"])
                files2["part_zq.s"] = "\n".join(inc_new) + "\n"
                twins_.append((pr, "include+relayout", dict(pr, src="\n".join(new) + "\n", files=files2)))
        orig = {id(pr): (r, m) for pr, r, m in run_.run(progs, trace=False)}
        res = run_.run([t for _, _, t in twins_], trace=False)
        for pr in progs:
            r, m = orig[id(pr)]
            s.cases += 1
            s.count("orig:" + stat_key(pr, r))
            run_.correspond(s, pr, r, m)
        for (pr, kind, tw), (tp, tr, tm) in zip(twins_, res):
            r, _ = orig[id(pr)]
            s.cases += 1
            s.count("twin:" + kind)
            s.nontrivial.add((pr["rom"], kind, tw["src"][:30]))
            run_.correspond(s, tp, tr, tm)
            o1, o2 = outputs(r), outputs(tr)
            inp = {"src": pr["src"], "twin": tw["src"], "twin_files": {k: v for k, v in tw["files"].items() if k == "part_zq.s"}, "rom": pr["rom"], "change": kind}
            if (o1 is None) != (o2 is None):
                s.violate(inp, r["status"], (tr["status"], tr.get("exc"), (tr.get("error") or "")[:120]), "a presentation change alters whether the program assembles")
            elif o1 is not None and o1 != o2:
                what = "bytes/offsets" if o1[0] != o2[0] else "symbol values"
                s.violate(inp, "same output", what + " differ", "a presentation change alters the emitted bytes, their offsets or symbol values")
        s.sample({"src": progs[0]["src"][:200], "twin": twins_[0][2]["src"][:300]})

        s2 = core.Stream("S4-relayout-samples", "the repository's sample sources (tests/samples/*.s) under the same presentation changes")
        for fn in ("sample.s", "push_pull.s"):
            src = open(os.path.join(core.REPO, "tests", "samples", fn), encoding="utf-8").read()
            base = impl.assemble(src, "low_rom", cwd=run_.tmp)
            lines = [l.strip() for l in src.split("\n")]
            lines = [l for l in lines if l and not l.startswith(";")]
            canon_src = "\n".join(lines) + "\n"
            cb = impl.assemble(canon_src, "low_rom", cwd=run_.tmp)
            s2.cases += 1
            if outputs(base) != outputs(cb):
                s2.violate({"file": fn}, "same output", "differs", "removing blank lines / indentation / full-line comments changes the output of a sample")
            for k in range(10 if tier == "quick" else 100):
                # samples contain constructs the line relayouter does not know (strings with ';'): whitespace/comment changes only
                new = []
                for l in lines:
                    if rng.random() < 0.2:
                        new.append("")
                    if rng.random() < 0.15:
                        new.append("; " + rng.choice(relayout.COMMENT_WORDS))
                    if rng.random() < 0.1:
                        new.append("/* x\ny */")
                    new.append(rng.choice(["", "  ", "\t"]) + l + rng.choice(["", " ", "  "]))
                t = impl.assemble("\n".join(new) + "\n", "low_rom", cwd=run_.tmp)
                s2.cases += 1
                s2.nontrivial.add((fn, k))
                if outputs(t) != outputs(cb):
                    s2.violate({"file": fn, "twin": "\n".join(new)[:2000]}, "same output", "differs", "blank lines / indentation / trailing blanks / comments change the output of a sample")
        s2.sample({"files": ["sample.s", "push_pull.s"]})

        s3 = core.Stream("S4-run-used-twice", "a run of statements that occurs twice in a program is moved into one file that is included at both places (and once more inside a block): bytes, offsets and label values equal the inline program")
        stm = ["nop", "lda #0x12", "sta.w 0x2100", ".db 1, 2, 3", ".dw 0x1234", "inx", "rep #0x30", ".ascii 'ok'", "lda.l 0x7e0000,x"]
        for i in range(14 if tier == "quick" else 150):
            runl = [rng.choice(stm) for _ in range(rng.randrange(1, 5))]
            mid = [rng.choice(stm) for _ in range(rng.randrange(0, 3))]
            inline = ["*=0x008000", "first:"] + runl + ["between:"] + mid + runl + ["{", "inner:"] + runl + ["}", "done:", ".dw first, between, done"]
            twin = ["*=0x008000", "first:", ".include 'part_zq.s'", "between:"] + mid + [".include 'part_zq.s'", "{", "inner:", ".include 'part_zq.s'", "}", "done:", ".dw first, between, done"]
            a = impl.assemble("\n".join(inline) + "\n", "low_rom", cwd=run_.tmp)
            impl.write_files(run_.tmp, {"part_zq.s": "\n".join(runl) + "\n"}, None)
            b = impl.assemble("\n".join(twin) + "\n", "low_rom", cwd=run_.tmp)
            s3.cases += 1
            s3.nontrivial.add(tuple(runl))
            if outputs(a) is None:
                s3.violate({"src": "\n".join(inline)}, "assembled", a.get("exc") or a.get("error"), "a plain program is rejected")
            elif outputs(a) != outputs(b):
                s3.violate({"src": "\n".join(inline), "twin": "\n".join(twin), "part_zq.s": "\n".join(runl)}, "same output", (b["status"], b.get("exc")), "moving a run of statements that is used several times into one included file changes the output")
        # a run moved into a file that is included from a loop body / a macro body expanded several times, and a file whose
        # last line has no final newline
        for i in range(10 if tier == "quick" else 100):
            runl = [rng.choice(stm[:7]) for _ in range(rng.randrange(1, 4))]
            last = rng.choice(["asl 5", "inc 3", "dec 7", "lsr 1", "rol 2", "nop", "lda #1"])
            n_it = rng.randrange(2, 5)
            shapes = [
                (["*=0x008000", f".for k := 0, {n_it} {{"] + runl + [".db k", "}", "end:", ".dw end"],
                 ["*=0x008000", f".for k := 0, {n_it} {{", ".include 'part_zq.s'", ".db k", "}", "end:", ".dw end"]),
                (["*=0x008000", ".macro rep_zq(v) {"] + runl + [".db v", "}", "rep_zq(1)", "rep_zq(2)", "rep_zq(3)", "end:", ".dw end"],
                 ["*=0x008000", ".macro rep_zq(v) {", ".include 'part_zq.s'", ".db v", "}", "rep_zq(1)", "rep_zq(2)", "rep_zq(3)", "end:", ".dw end"]),
            ]
            for inline, twin in shapes:
                a = impl.assemble("\n".join(inline) + "\n", "low_rom", cwd=run_.tmp)
                for ending in ("\n", "", " ", " ; c"):
                    impl.write_files(run_.tmp, {"part_zq.s": "\n".join(runl + [last]) + ending}, None)
                    a2 = impl.assemble("\n".join(inline[:2] + runl + [last] + inline[2 + len(runl):]) + "\n", "low_rom", cwd=run_.tmp)
                    b = impl.assemble("\n".join(twin) + ending, "low_rom", cwd=run_.tmp)
                    s3.cases += 1
                    s3.count("include-in-repeated-body")
                    if outputs(a2) is None or outputs(a2) != outputs(b):
                        s3.violate({"src": "\n".join(inline[:2] + runl + [last] + inline[2 + len(runl):]), "twin": "\n".join(twin) + ending, "part_zq.s": "\n".join(runl + [last]) + ending},
                                   "same output", (b["status"], b.get("exc"), (b.get("error") or "")[:100]), "moving statements into an included file used inside a repeated body (or dropping the final newline) changes the output")
                        break
        # the moved run (re)defines things the rest of the program uses afterwards: macros (defined for the first time or
        # redefined), constants, symbols, tables
        for i in range(8 if tier == "quick" else 60):
            v1, v2, v3 = rng.randrange(256), rng.randrange(256), rng.randrange(256)
            pre = ["*=0x008000", ".macro put_zq(v) {", f".db v, {v1}", "}", "c_zq := 1", "put_zq(1)"]
            moved = rng.choice([
                [".macro put_zq(v) {", f".db v, {v2}, {v3}", "}", "put_zq(2)"],
                [".macro other_zq() {", f".db {v2}", "}", ".macro put_zq(v) {", "other_zq()", ".db v", "}"],
                ["c_zq := c_zq + 1", ".macro put_zq(v) {", f".db {v3}, v", "}"],
                [".macro fresh_zq(v) {", ".dw v", "}", "fresh_zq(0x1234)"],
            ])
            post = ["put_zq(3)", ".db c_zq", "{", "put_zq(4)", "}", "end:", ".dw end"] + (["fresh_zq(7)"] if "fresh_zq" in " ".join(moved) else [])
            inline = pre + moved + post
            twin = pre + [".include 'part_zq.s'"] + post
            impl.write_files(run_.tmp, {"part_zq.s": "\n".join(moved) + "\n"}, None)
            a = impl.assemble("\n".join(inline) + "\n", "low_rom", cwd=run_.tmp)
            b = impl.assemble("\n".join(twin) + "\n", "low_rom", cwd=run_.tmp)
            s3.cases += 1
            s3.count("definitions-in-moved-run")
            if outputs(a) is None:
                s3.violate({"src": "\n".join(inline)}, "assembled", a.get("exc") or a.get("error"), "a plain program is rejected")
            elif outputs(a) != outputs(b):
                s3.violate({"src": "\n".join(inline), "twin": "\n".join(twin), "part_zq.s": "\n".join(moved)}, "same output", (b["status"], b.get("exc")),
                           "moving a run of statements that (re)defines a macro / constant used afterwards into an included file changes the output")
        # a run moved into a file whose first version was broken (or missing) and has been repaired since: the program with
        # the .include still equals the inline program, in the same process
        for i in range(8 if tier == "quick" else 60):
            runl = [rng.choice(stm) for _ in range(rng.randrange(1, 5))]
            inline = ["*=0x008000", "first:"] + runl + ["done:", ".dw first, done"]
            twin = ["*=0x008000", "first:", f".include 'fix_zq_{i}.s'", "done:", ".dw first, done"]
            name = f"fix_zq_{i}.s"
            import os as _os
            broken = rng.choice([None, "lda #\n", ".ascii 'abc\n", "lda.q 1\n", "}\n", "/* open\n"])
            path = _os.path.join(run_.tmp, name)
            if broken is None:
                if _os.path.exists(path):
                    _os.remove(path)
            else:
                impl.write_files(run_.tmp, {name: "\n".join(runl[:1]) + "\n" + broken}, None)
            bad = impl.assemble("\n".join(twin) + "\n", "low_rom", cwd=run_.tmp)
            impl.write_files(run_.tmp, {name: "\n".join(runl) + "\n"}, None)
            a = impl.assemble("\n".join(inline) + "\n", "low_rom", cwd=run_.tmp)
            b = impl.assemble("\n".join(twin) + "\n", "low_rom", cwd=run_.tmp)
            s3.cases += 1
            s3.count("include-repaired-after-failure")
            if bad["status"] == "ok":
                s3.violate({"twin": "\n".join(twin), name: broken}, "rejected", "assembled", "a program including a broken / missing file is assembled")
            elif outputs(a) is None or outputs(a) != outputs(b):
                s3.violate({"src": "\n".join(inline), "twin": "\n".join(twin), name: "\n".join(runl), "history": f"an earlier assembly of the twin failed while {name} was " + ("missing" if broken is None else "broken: " + broken.strip())},
                           "same output", (b["status"], b.get("exc"), (b.get("error") or "")[:100]), "moving statements into an included file changes the output once an earlier assembly failed inside that file")
        s3.sample({"shape": "first: RUN between: … RUN { inner: RUN } done:"})
        # ---- the conclusion of scan_append_tokens, evaluated on the real scanner (the theorem is about the model; this
        # oracle shows the code behaves as the theorem says, with the stronger claim on positions)
        from props import c15
        s4 = core.Stream("S7-compositional", "newline-terminated chunks p (lines of generated programs, blank / indented lines, ';' and one-line or multi-line '/* */' comment lines) and arbitrary following texts r through the real scanner: when scan(p) succeeds, scan(p ++ r) = scan(p) without its EOF, exactly (types, texts, positions), followed by the tokens of scan(r) with their lines shifted by the number of lines of p (same types, texts, columns), and it fails iff scan(r) fails, with the same message and the shifted position; non-trivial = distinct (kinds of chunk, outcome)")
        pool = []
        for pr in progs[: (40 if tier == "quick" else 300)]:
            ls = pr["src"].rstrip("\n").split("\n")
            pool.append(ls)
        fillers = ["", "   ", "\t", "; a comment", "   ; indented comment", "/* one line */", "/* two", "lines */", "nop ; eol", "lda #1 /* tail */",
                   "label_zq:", ".db 1, 2 ; data", "x_zq = 3"]
        bad_tails = ["lda.q 1", ".ascii 'open", "/* never closed", "lda 0x10,q", "$", "lda #1 $"]

        def parse_ok(r):
            body, _, _lines = r[3:].partition(" | ")
            out = []
            for t in body.split(" ") if body else []:
                ty, v, ln, col = t.rsplit(":", 3) if t.count(":") >= 3 else (t, "", "0", "0")
                out.append((ty, v, int(ln), int(col)))
            return out
        for i in range(120 if tier == "quick" else 1500):
            ls = rng.choice(pool)
            cut = rng.randrange(0, len(ls) + 1)
            pl = ls[:cut]
            for _ in range(rng.randrange(0, 3)):
                pl.insert(rng.randrange(0, len(pl) + 1), rng.choice(fillers[:6] + fillers[8:]))
            p_txt = "".join(l + "\n" for l in pl)
            rl = list(ls[cut:])
            for _ in range(rng.randrange(0, 3)):
                rl.insert(rng.randrange(0, len(rl) + 1), rng.choice(fillers))
            kind = rng.randrange(4)
            if kind == 0:
                rl.append(rng.choice(bad_tails))
            r_txt = "\n".join(rl) + (rng.choice(["\n", "", "  "]) if rl else "")
            if not p_txt:
                continue
            rp = c15.real_scan("initial", p_txt)
            if not rp.startswith("ok "):
                s4.count("chunk-does-not-scan")     # e.g. the cut fell inside a multi-line comment: the theorem's hypothesis fails
                continue
            rr = c15.real_scan("initial", r_txt)
            rw = c15.real_scan("initial", p_txt + r_txt)
            s4.cases += 1
            nl = p_txt.count("\n")
            tp = parse_ok(rp)[:-1]
            inp = {"p": p_txt, "r": r_txt}
            s4.nontrivial.add((rr[:3], len(tp) > 0, kind, "comment" in p_txt, "/*" in p_txt))
            s4.count("r:" + rr.split(" ")[0])
            if rr.startswith("ok "):
                exp = tp + [(ty, v, ln + nl, col) for ty, v, ln, col in parse_ok(rr)]
                if not rw.startswith("ok ") or parse_ok(rw) != exp:
                    s4.violate(inp, "tokens of p (without EOF) followed by the tokens of r, lines shifted by %d" % nl, rw[:300], "scanning is not compositional over newline-terminated chunks: the tokens of p ++ r are not those of p followed by those of r")
            elif rr.startswith("err "):
                w = rr.split(" ")
                expw = f"err {w[1]} {int(w[2]) + nl} {w[3]}"
                # the message of "Invalid Input" quotes the rest of the text: identical in both scans
                if not rw.startswith(expw + " "):
                    s4.violate(inp, expw, rw[:200], "a lexical error of r is not reported (message, shifted line, column) when r follows the chunk p")
            else:
                if rw.split(" ")[0] != rr.split(" ")[0]:
                    s4.violate(inp, rr[:80], rw[:80], "the outcome of scanning r changes when r follows the chunk p")
        s4.sample({"p": "nop\n  ; note\n", "r": "lda #1\n"})
        # ---- the conclusions of insert_comment_line / insert_block_comment / naked_opcode_eol_comment on the real scanner
        s5 = core.Stream("S7-comment-opaque", "a ';' comment with an arbitrary text (quotes, braces, '/*', '*/', mnemonics, keywords, backslashes, non-ASCII) or a '/* */' comment whose body holds no '*/' (bodies starting with '/', ending with '*', spanning lines, holding ';' and quotes) put, behind arbitrary indentation, between a newline-terminated chunk p of a generated program and the following text r, or behind an instruction that stands alone ('nop   ; text'): through the real scanner the tokens that are not COMMENT tokens keep their types and texts (and their columns when the comment ends its line), exactly one COMMENT token is added, and the outcome is unchanged; non-trivial = distinct (comment kind, features of its text, outcome)")
        words = ["'", "''", '"', "{", "}", "{{", "}}", "/*", "*/", "*", "/", ";", "lda #1", "nop", ".db 1", "rts", ".macro m() {", ":=", "\\", "\\'", "\t", "é", "日本", ".include 'x'", "0x", "[", "(", ",x", "@=", "*="]
        naked = ["nop", "rts", "rtl", "clc", "sei", "NOP", "Rts", "inx", "pha", "xba"]
        for i in range(160 if tier == "quick" else 2000):
            ls = rng.choice(pool)
            cut = rng.randrange(0, len(ls) + 1)
            p_txt = "".join(l + "\n" for l in ls[:cut])
            r_txt = "".join(l + "\n" for l in ls[cut:])
            if i % 5 == 4:
                r_txt += rng.choice(bad_tails)
            ws = "".join(rng.choice([" ", "\t", "\n", "  "]) for _ in range(rng.randrange(0, 4)))
            kind = i % 4
            text = "".join(rng.choice(words + [" ", " ", "a", "z", "0"]) for _ in range(rng.randrange(0, 7)))
            if kind in (0, 3):
                text = text.replace("\n", " ")
                cm = ";" + text + "\n"
            else:
                body = "".join(rng.choice(words + [" ", "\n", "a", ";"]) for _ in range(rng.randrange(0, 7)))
                body = rng.choice(["", "/", "*", " "]) + body + rng.choice(["", "*", "/", " /"])
                while "*/" in body + "*":     # no */ may start inside the body (NoClose)
                    j = (body + "*").index("*/")
                    body = body[:j] + body[j + 1:]
                text = body
                cm = "/*" + body + "*/" + rng.choice(["", "\n", " \n"])
            if kind == 3:
                # an instruction that stands alone, then blanks, then the comment -- against the same line without comment
                mn = rng.choice(naked)
                gap = "".join(rng.choice([" ", "\t"]) for _ in range(rng.randrange(1, 4)))
                with_c = p_txt + mn + gap + cm + r_txt
                without = p_txt + mn + rng.choice(["", " ", "\t "]) + "\n" + r_txt
            else:
                with_c = p_txt + ws + cm + r_txt
                without = p_txt + r_txt
            if not c15.real_scan("initial", p_txt).startswith("ok ") and p_txt:
                s5.count("chunk-does-not-scan")
                continue
            ra, rb = c15.real_scan("initial", with_c), c15.real_scan("initial", without)
            s5.cases += 1
            feats = tuple(sorted(w for w in ("'", "/*", "{", ";", "\n", "\\") if w in text))
            s5.nontrivial.add((kind, feats, rb[:3]))
            s5.count(("line", "block", "block", "naked-eol")[kind] + ":" + rb.split(" ")[0])
            inp = {"with_comment": with_c, "without": without}
            cols = cm.endswith("\n")     # what follows the comment starts on a fresh line: columns are kept too
            if rb.startswith("ok "):
                if not ra.startswith("ok "):
                    s5.violate(inp, "scans like the text without the comment", ra[:200], "a comment changes the outcome of the scan")
                    continue
                ta, tb = parse_ok(ra), parse_ok(rb)
                ca = [t for t in ta if t[0] == "COMMENT"]
                cb = [t for t in tb if t[0] == "COMMENT"]
                ka = [(t[0], t[1], t[3] if cols else 0) for t in ta if t[0] != "COMMENT"]
                kb = [(t[0], t[1], t[3] if cols else 0) for t in tb if t[0] != "COMMENT"]
                if ka != kb or len(ca) != len(cb) + 1:
                    s5.violate(inp, {"non-comment tokens": len(kb), "comment tokens": len(cb) + 1}, {"non-comment tokens": len(ka), "comment tokens": len(ca), "first difference": next(((x, y) for x, y in zip(ka, kb) if x != y), None)},
                               "the text of a comment is looked at: a comment between lines (or behind an instruction that stands alone) changes the other tokens, or is not exactly one COMMENT token")
            elif rb.startswith("err "):
                wa, wb = ra.split(" "), rb.split(" ")
                if wa[:2] != wb[:2] or (cols and len(wa) > 3 and len(wb) > 3 and wa[3] != wb[3]):
                    s5.violate(inp, " ".join(wb[:4]), " ".join(wa[:4]), "a lexical error behind a comment is reported differently (message / column) than without the comment")
            elif ra.split(" ")[0] != rb.split(" ")[0]:
                s5.violate(inp, rb[:80], ra[:80], "a comment changes the outcome of the scan")
        s5.sample({"with_comment": "nop\n  ; it's /* {\nlda #1\n", "without": "nop\nlda #1\n"})
        return [s, s2, s3, s4, s5, run_.repeat_stream()]
    finally:
        run_.close()
