"""C01 — instruction encoding: one-instruction programs through the real scanner+parser+assembler vs
the model (`instr`) and the ISA oracle (`spec.instr`); the supported set is checked to keep assembling."""
from __future__ import annotations

import itertools
import multiprocessing as mp

import core
import impl

IDX = ["-", "x", "y", "s"]
# (syntax record, text template); {v} = operand text, {I}/{O} inner/outer index letters
SHAPES = []
for inner in IDX:
    for outer in IDX:
        o = "" if outer == "-" else ",{O}"
        if inner == "-":
            SHAPES.append((f"1,0,none,-,{outer}", "{v}" + o))
            SHAPES.append((f"1,1,none,-,{outer}", "#{v}" + o))
        i = "" if inner == "-" else ",{I}"
        SHAPES.append((f"1,0,paren,{inner},{outer}", "({v}" + i + ")" + o))
        SHAPES.append((f"1,0,square,{inner},{outer}", "[{v}" + i + "]" + o))
NAKED = ("0,0,none,-,-", "")
MAGS = [0, 1, 0xFF, 0x100, 0x1234, 0xFFFF, 0x10000, 0x123456, 0xFFFFFF, 0x1000000]
BRANCHES = {"bcc", "bcs", "beq", "bmi", "bne", "bpl", "bra", "bvc", "bvs"}


def render(mn, syn, tmpl, sfx, v, case, rng):
    _, _, _, inner, outer = syn.split(",")
    m = mn
    s = {None: "", 1: ".b", 2: ".w", 3: ".l"}[sfx]
    lit = ("0x%x" % v) if v >= 0 else ("-0x%x" % -v)
    if v >= 0 and rng.random() < 0.2:
        # leading zeros do not widen the operand: the width comes from the value
        if rng.random() < 0.8:
            lit = rng.choice(["0x%04x", "0x%06x", "0x00%x"]) % v
        else:
            lit = "0b" + "0" * rng.randrange(1, 9) + "{:b}".format(v)
    I, O = inner, outer
    if case == "upper":
        m, s, I, O = m.upper(), s.upper(), I.upper(), O.upper()
        lit = lit.upper().replace("0X", "0x").replace("0B", "0b")
    elif case == "mixed":
        m = "".join(c.upper() if rng.random() < 0.5 else c for c in m)
        s = s.upper() if rng.random() < 0.5 else s
        I = I.upper() if rng.random() < 0.5 else I
        O = O.upper() if rng.random() < 0.5 else O
    if not tmpl:
        return m
    return m + s + " " + tmpl.format(v=lit, I=I, O=O)


def real(text):
    r = impl.assemble(text)
    if r["status"] == "ok":
        return "ok " + b"".join(b for _, b in r["blocks"]).hex()
    if r["status"] == "timeout":
        return "timeout"
    return "rej"


def _real_many(texts):
    return [real(t) for t in texts]


def run(ctx):
    tier, seed = ctx["tier"], ctx["seed"]
    drv = core.Driver()
    rng = core.rng_for(seed, "c01")
    mnemonics = drv.ask(["mnemonics"])[0].split()
    s = core.Stream("S2-instr", "one-instruction programs: mnemonic x operand shape (all 48 index/bracket/# combinations incl. malformed, + lone mnemonic) x suffix (none,.b,.w,.l) x magnitude class x letter case, assembled by the real scanner+parser+assembler; compared with the model encoder and with the ISA oracle; non-trivial = distinct (mnemonic, shape, suffix, width class)")
    cases = []
    if tier == "thorough":
        combos = itertools.product(mnemonics, [NAKED] + SHAPES, [None, 1, 2, 3], MAGS + [-1, -0x100])
        for mn, (syn, tmpl), sfx, v in combos:
            if not tmpl and (sfx is not None or v != 0):
                continue
            cases.append((mn, syn, tmpl, sfx, v, rng.choice(["lower", "lower", "upper", "mixed"])))
        s.exhaustive = True
    else:
        for mn in mnemonics:
            for (syn, tmpl) in [NAKED] + SHAPES:
                if not tmpl:
                    cases.append((mn, syn, tmpl, None, 0, "lower"))
                    continue
                for sfx in (None, 1, 2, 3):
                    for v in (rng.choice(MAGS[:3]), rng.choice(MAGS[3:6]), rng.choice(MAGS[6:9])) if sfx is None else (rng.choice(MAGS),):
                        cases.append((mn, syn, tmpl, sfx, v, rng.choice(["lower", "lower", "upper", "mixed"])))
        # mostly-valid stream: every (mnemonic, shape) the table supports x every suffix x every magnitude class
        pairs = sorted({(x.split()[0], x.split()[1]) for x in drv.ask(["spec.supported"])[0].split(";")})
        tm = dict([NAKED] + SHAPES)
        for mn, syn in pairs:
            if not tm[syn]:
                continue
            for sfx in (None, 1, 2, 3):
                for v in MAGS + [-1]:
                    cases.append((mn, syn, tm[syn], sfx, v, rng.choice(["lower", "upper", "mixed"])))
        for _ in range(3000):
            mn = rng.choice(mnemonics)
            syn, tmpl = rng.choice(SHAPES)
            cases.append((mn, syn, tmpl, rng.choice([None, None, 1, 2, 3]), rng.choice(MAGS + [-1, -2, -0x100, rng.randrange(1 << 25)]), rng.choice(["lower", "upper", "mixed"])))
    texts = [render(mn, syn, tmpl, sfx, v, case, rng) for mn, syn, tmpl, sfx, v, case in cases]
    ops_m = [f"instr {mn} {syn} {sfx or '-'} {v}" for mn, syn, tmpl, sfx, v, case in cases]
    ops_s = [f"spec.instr {mn} {syn} {sfx or '-'} {v}" for mn, syn, tmpl, sfx, v, case in cases]
    model = drv.ask(ops_m)
    spec = drv.ask(ops_s)
    if len(texts) > 20000:
        chunks = [texts[i:i + 2000] for i in range(0, len(texts), 2000)]
        with mp.Pool(16) as pool:
            got = [x for part in pool.map(_real_many, chunks) for x in part]
    else:
        got = _real_many(texts)
    sup = {}
    for item in drv.ask(["spec.supported"])[0].split(";"):
        mn, syn, w, op, rel = item.split()
        sup[(mn, syn, int(w))] = (int(op), rel == "1")
    for (mn, syn, tmpl, sfx, v, case), text, m_, sp, g in zip(cases, texts, model, spec, got):
        s.cases += 1
        wclass = 0 if v < 0 else 1 if v < 256 else 2 if v < 65536 else 3 if v < (1 << 24) else 4
        s.nontrivial.add((mn, syn, sfx, wclass))
        s.count("accepted" if g.startswith("ok") else "rejected")
        s.count("case-" + case)
        is_branch = mn in BRANCHES and syn == "1,0,none,-,-"
        mm = "rej" if m_.startswith("rej") else m_
        if not is_branch and mm != g:
            s.disagree({"text": text}, m_, g)
        if sp == "noclaim":
            s.count("spec-noclaim")
            continue
        if sp == "undef":
            s.count("spec-undefined")
            if g.startswith("ok"):
                s.violate({"text": text}, "rejected (the 65c816 defines no such instruction)", g, "an undefined mnemonic/shape/width combination is assembled as some other instruction")
            continue
        s.count("spec-defined")
        if g.startswith("ok") and g != sp:
            s.violate({"text": text}, sp, g, "emitted bytes differ from ISA opcode + little-endian operand of the ruled width")
        if not g.startswith("ok"):
            w = sfx if sfx else wclass
            if (mn, syn, 0 if not tmpl else w) in sup:
                s.violate({"text": text}, sp, g, "a combination of the supported set no longer assembles")
    s.sample({"text": texts[7], "model": model[7], "spec": spec[7], "real": got[7]})
    s.sample({"text": texts[len(texts) // 2], "model": model[len(texts) // 2], "spec": spec[len(texts) // 2], "real": got[len(texts) // 2]})

    # every supported combination, every boundary value that fits
    s2 = core.Stream("S2-supported", "every entry of the frozen supported set x boundary values of its width x 3 letter cases must assemble to ISA opcode + value (oracle), and agree with the model")
    s2.exhaustive = True
    cases2 = []
    for (mn, syn, w), (op, rel) in sup.items():
        if rel:
            continue
        tmpl = dict([NAKED] + SHAPES)[syn]
        vals = [0] if w == 0 else {1: [0, 0x7F, 0xFF], 2: [0x100, 0x8000, 0xFFFF], 3: [0x10000, 0x800000, 0xFFFFFF]}[w]
        for v in vals:
            for case in ("lower", "upper", "mixed"):
                for sfx in ((None,) if w == 0 else (None, w)):
                    cases2.append((mn, syn, tmpl, sfx, v, case, op, w))
    texts2 = [render(mn, syn, tmpl, sfx, v, case, rng) for mn, syn, tmpl, sfx, v, case, op, w in cases2]
    model2 = drv.ask([f"instr {mn} {syn} {sfx or '-'} {v}" for mn, syn, tmpl, sfx, v, case, op, w in cases2])
    for (mn, syn, tmpl, sfx, v, case, op, w), text, m_ in zip(cases2, texts2, model2):
        g = real(text)
        exp = "ok " + bytes([op] + [(v >> (8 * k)) & 0xFF for k in range(w)]).hex()
        s2.cases += 1
        s2.nontrivial.add((mn, syn, w))
        if g != ("rej" if m_.startswith("rej") else m_):
            s2.disagree({"text": text}, m_, g)
        if g != exp:
            s2.violate({"text": text}, exp, g, "a combination of the supported set does not assemble to its ISA encoding")
    s2.sample({"text": texts2[0], "model": model2[0]})

    # width inference and operand bytes directly (S0)
    s3 = core.Stream("S0-width", "get_operand_size (hex-digit rule) on boundary/negative/random values vs model")
    from a816.parse.nodes import ValueNodeProtocol

    class V(ValueNodeProtocol):
        def __init__(self, v):
            self.v = v

        def get_value(self):
            return self.v

        def get_value_string_len(self):
            return len(hex(self.v)) - 2
    vals = [0, 1, 0xF, 0x10, 0xFF, 0x100, 0xFFF, 0x1000, 0xFFFF, 0x10000, 0xFFFFFF, 0x1000000, -1, -0xF, -0x10, -0xFF, -0x100, -0xFFF, -0x1000]
    vals += [rng.randrange(-(1 << 26), 1 << 26) for _ in range(300)]
    ans = drv.ask([f"opsize {v}" for v in vals])
    for v, a in zip(vals, ans):
        s3.cases += 1
        s3.nontrivial.add(len(hex(v)))
        g = {"b": "1", "w": "2", "l": "3"}[V(v).get_operand_size()]
        if g != a:
            s3.disagree({"value": v}, a, g)
    s3.sample({"value": vals[5], "model": ans[5]})
    # operand expressions: the value of an arbitrary expression text decides width and operand bytes
    from props import c06 as X
    s5 = core.Stream("S2-expr-operands", "instructions of the supported set whose operand is an arbitrary expression text (all binary/unary operators, nested and leading parenthesised groups, random spacing, chains of equal-precedence operators) with and without suffix: bytes = ISA opcode for the syntax and the width ruled by the expression's conventional value (Spec.eval) + that value little-endian; non-trivial = distinct (mnemonic, syntax, width, operator skeleton)")
    by_pair = {}
    for (mn, syn, w), (op, rel) in sup.items():
        if not rel and w > 0 and mn not in BRANCHES:
            by_pair.setdefault((mn, syn), set()).add(w)
    pairs5 = sorted(by_pair)
    tm = dict([NAKED] + SHAPES)
    cases5 = []
    for i in range(500 if tier == "quick" else 8000):
        mn, syn = rng.choice(pairs5)
        if i % 4 == 0:
            # chains of equal-precedence operators, where grouping matters
            a, b, c = rng.randrange(2, 200), rng.randrange(1, 60), rng.randrange(1, 40)
            o1, o2 = rng.choice([("-", "-"), ("-", "+"), (">>", "<<"), ("<<", ">>"), ("-", "-")])
            t = ("bin", o2, ("bin", o1, X.lit(rng, a + b + c), X.lit(rng, b % 9 if o1 in ("<<", ">>") else b)), X.lit(rng, c % 9 if o2 in ("<<", ">>") else c))
        else:
            t = X.gen_tree(rng, rng.randrange(1, 5), {}, X.BOPS, ["-", "~"])
        if i % 5 == 1:
            t = ("bin", rng.choice(["+", "|", "*", "&", "-"]), ("paren", t), X.lit(rng, rng.randrange(1, 9)))
        text = X.render(t, rng)
        plain = syn.split(",")[2] == "none"
        if plain and X.whole_group(text):
            continue
        cases5.append((mn, syn, t, text))
    vals5 = drv.ask(["spec.eval - " + " ".join(X.prefix(t)) for _, _, t, _ in cases5])
    todo = []
    for (mn, syn, t, text), sp in zip(cases5, vals5):
        w_ = sp.split()
        if w_[0] != "some" or w_[-1] != "wf":
            continue
        v = int(w_[1])
        for sfx in (None, rng.choice(sorted(by_pair[(mn, syn)]))):
            if sfx is None and not 0 <= v < (1 << 24):
                continue
            todo.append((mn, syn, sfx, v, text))
    exp5 = drv.ask([f"spec.instr {mn} {syn} {sfx or '-'} {v}" for mn, syn, sfx, v, text in todo])
    for (mn, syn, sfx, v, text), e in zip(todo, exp5):
        line = mn + {None: "", 1: ".b", 2: ".w", 3: ".l"}[sfx] + " " + tm[syn].format(v=text, I=syn.split(",")[3], O=syn.split(",")[4])
        g = real(line)
        s5.cases += 1
        s5.nontrivial.add((mn, syn, sfx, X.skeleton(("num", 0, 0)) if False else len(text) // 8))
        s5.count("accepted" if g.startswith("ok") else "rejected")
        if e == "noclaim":
            continue
        if e == "undef":
            if g.startswith("ok"):
                s5.violate({"text": line, "operand_value": v}, "rejected (no such mnemonic / shape / width)", g, "an undefined combination is assembled")
            continue
        if g == "rej":
            # defined by the ISA but not in the assembler's supported set: may be rejected
            wv = sfx if sfx else (1 if v < 256 else 2 if v < 65536 else 3)
            if (mn, syn, wv) in sup:
                s5.violate({"text": line, "operand_value": v}, e, g, "a combination of the supported set is rejected for this operand expression")
            continue
        if g != e:
            s5.violate({"text": line, "operand_value": v}, e, g, "bytes differ from ISA opcode + little-endian value of the operand expression at the ruled width")
    if todo:
        s5.sample({"text": todo[0][0] + " " + todo[0][4], "expected": exp5[0]})

    # instructions inside real programs: operands that name constants, symbols, labels, loop variables and macro
    # parameters (shadowed and rebound), with and without suffix; per-instruction ISA oracle on the emitted bytes
    import pipeline
    run_ = pipeline.Runner(drv)
    try:
        s4 = pipeline.wild_stream(run_, "C01", tier, seed, oracles=(pipeline.oracle_c01,))
        s4.name = "S4-wild-instr"
        s6 = run_.repeat_stream()
    finally:
        run_.close()
    return [s, s2, s3, s4, s5, s6]
