"""C18 — tables: real script.Table vs model; oracle = Spec longest-match encoder; round trip on prefix-free tables."""
from __future__ import annotations

import os
import shutil

import core
import impl

ALPHA = list("abcdexyz") + ["é", "日", " ", "[", "]", "0", "1", "A", "F", "=",
                            # combining marks and conjoining jamo: a table maps code points, never normalised sequences
                            "\u0301", "\u0300", "\u1100", "\u1161", "\uac00", "è",
                            # a table file is read line by line ("\n" ends a line, nothing else does)
                            "\x85", "\u2028", "\x0c", "\x1c", "\x0b"]


def hx(s):
    return s.encode("utf-8").hex() or "-"


def gen_table(rng, kind):
    """returns (file text, entries [(text, code bytes, ignore)] in file order)"""
    n = rng.randrange(1, 9)
    entries, lines = [], []
    used_codes = set()
    for i in range(n):
        if kind == "single":
            txt = rng.choice(ALPHA[:11])
        else:
            txt = "".join(rng.choice(ALPHA) for _ in range(rng.choice([1, 1, 1, 2, 2, 3, 4])))
        if txt.strip(" ") == "":
            txt = "q" + txt
        if kind != "single" and rng.random() < 0.15:
            # dictionary entries that begin with blanks (" the"): the blanks belong to the text
            txt = rng.choice([" ", "  "]) + txt
        if kind in ("single", "prefixfree"):
            # unique, prefix-free codes: fixed length 2
            # variable length, prefix-free by construction: the first byte decides the length
            while True:
                b0 = rng.randrange(256)
                ln = 3 if b0 < 0x40 else 2 if b0 < 0x80 else 1
                code = bytes([b0] + [rng.randrange(256) for _ in range(ln - 1)])
                if code not in used_codes:
                    break
            if any(t == txt for t, _, _ in entries):
                continue
        else:
            code = bytes(rng.randrange(256) for _ in range(rng.choice([1, 1, 2, 3])))
        used_codes.add(code)
        ign = rng.randrange(0, 3) if (kind == "general" and rng.random() < 0.15) else None
        h = code.hex()
        if rng.random() < 0.5:
            h = h.upper()
        line = h + (f":{ign}" if ign is not None else "") + rng.choice(["", "", " ", "\t"]) + "=" + txt.replace("\n", "\\n")
        entries.append((txt, code, ign))
        lines.append(line)
        if kind == "general" and rng.random() < 0.1:
            lines.append(rng.choice(["; comment", "", "zz=nope", " 41=leading space", "41", "4=a"[:2]]))
    if kind == "general" and rng.random() < 0.08:
        lines.append("4=x")  # odd number of hex digits: ValueError
        entries.append(("BAD", b"", None))
    text = "\n".join(lines) + ("\n" if rng.random() < 0.8 else "")
    return text, entries


def gen_string(rng, entries):
    parts = []
    texts = [t for t, _, _ in entries if t != "BAD"] or ["a"]
    for _ in range(rng.randrange(0, 12)):
        r = rng.random()
        if r < 0.55:
            parts.append(rng.choice(texts))
        elif r < 0.7:
            parts.append(rng.choice(ALPHA))
        elif r < 0.85:
            parts.append(rng.choice(["[0x41]", "[0x1]", "[0xfF]", "[0x0]", "[0x100]", "[0x]", "[0x4", "[0xZZ]", "[0X41]", "[0x41]]"]))
        else:
            parts.append(rng.choice(["\n", "Ω", "'"]))
    return "".join(parts)


def run(ctx):
    tier, seed = ctx["tier"], ctx["seed"]
    drv = core.Driver()
    rng = core.rng_for(seed, "c18")
    tmp = core.tmpdir()
    from script import Table
    try:
        s = core.Stream("S9-table", "generated tables (single/multi-character texts, 1-3 byte codes, overlapping prefixes like a,b,ab, '['-initial texts, ignore suffixes, duplicate texts/codes, junk lines) x strings over the table alphabet + escapes + unknown characters: real Table.to_bytes / to_text vs model; oracle: Spec longest-match encoder; round trip on unique prefix-free tables; non-trivial = distinct (table kind, outcome, #entries)")
        n = 120 if tier == "quick" else 1500
        for ti in range(n):
            kind = ["general", "general", "prefixfree", "single"][ti % 4]
            ftext, entries = gen_table(rng, kind)
            path = os.path.join(tmp, f"t{ti}.tbl")
            with open(path, "w", encoding="utf-8") as fh:
                fh.write(ftext)
            try:
                tb = Table(path)
                tstat = "ok"
            except Exception as e:  # noqa: BLE001
                tb, tstat = None, "err-table"
            strings = [gen_string(rng, entries) for _ in range(8)]
            if entries and kind == "general":
                strings.append("aab" if any(t == "ab" for t, _, _ in entries) else entries[0][0] * 3)
            ops = [f"tbl.enc {hx(ftext)} {hx(st)}" for st in strings]
            model = drv.ask(ops)
            ent_ok = [(t, c) for t, c, _ in entries if t != "BAD"]
            spec = drv.ask([f"spec.tblenc {';'.join(hx(t) + '=' + (c.hex() or '-') for t, c in ent_ok) or '-'} {hx(st)}" for st in strings])
            for st, m_, sp in zip(strings, model, spec):
                s.cases += 1
                if tb is None:
                    got = "err-table"
                else:
                    try:
                        got = "ok " + (tb.to_bytes(st).hex() or "-")
                    except Exception:  # noqa: BLE001
                        got = "err"
                mm = "err-table" if m_.startswith("err-table") else "err" if m_.startswith("err") else m_
                s.nontrivial.add((kind, got.split()[0], len(entries)))
                s.count(f"{kind}:{got.split()[0]}")
                if got != mm:
                    s.disagree({"table": ftext, "text": st}, m_, got)
                if tb is not None and not any(t == "BAD" for t, _, _ in entries):
                    exp = "ok " + sp[5:] if sp.startswith("some") else "err"
                    if got != exp:
                        s.violate({"table": ftext, "text": st}, exp, got, ".text bytes are not the longest-match encoding of the string")
            # decoding
            if tb is not None:
                bins = []
                for st in strings[:4]:
                    try:
                        bins.append(tb.to_bytes(st))
                    except Exception:  # noqa: BLE001
                        pass
                bins.append(bytes(rng.randrange(256) for _ in range(rng.randrange(0, 8))))
                model = drv.ask([f"tbl.dec {hx(ftext)} {b.hex() or '-'}" for b in bins])
                for b, m_ in zip(bins, model):
                    s.cases += 1
                    try:
                        got = "ok " + hx(tb.to_text(b))
                    except Exception:  # noqa: BLE001
                        got = "err"
                    mm = "err" if m_.startswith("err") else m_
                    if got != mm:
                        s.disagree({"table": ftext, "bytes": b.hex()}, m_, got)
                if kind in ("single", "prefixfree"):
                    texts = [t for t, _, _ in entries]
                    for _ in range(6):
                        parts = [rng.choice(texts) for _ in range(rng.randrange(0, 10))]
                        st = "".join(parts)
                        if "[0x" in st:
                            continue
                        try:
                            enc = tb.to_bytes(st)
                            back = tb.to_text(enc)
                        except Exception as e:  # noqa: BLE001
                            s.violate({"table": ftext, "text": st}, "round trip", type(e).__name__, "round trip raises")
                            continue
                        s.cases += 1
                        s.count("roundtrip")
                        if kind == "single" and back != st:
                            s.violate({"table": ftext, "text": st}, st, back, "a string over a single-character prefix-free table does not round-trip")
                        if kind == "prefixfree":
                            # decoding returns the texts of the matched entries in order (Spec.matched); characters the
                            # greedy segmentation leaves without an entry are skipped
                            exp_m = drv.ask([f"spec.tblmatched {';'.join(hx(t) + '=' + (c.hex() or '-') for t, c in ent_ok) or '-'} {hx(st)}"])[0]
                            if hx(back) != exp_m:
                                st = bytes.fromhex(exp_m).decode("utf-8") if exp_m != "-" else ""
                                s.violate({"table": ftext, "text": st}, st, back, "decoding the emitted bytes does not return the matched texts in order")
            if ti < 2:
                s.sample({"table": ftext, "text": strings[0], "model": model[0] if model else None})

        s2 = core.Stream("S9-text-in-program", ".table / .text inside programs: bytes = encoding, following label = start + emitted size, nested scopes inherit the enclosing table unless they load their own")
        for i in range(30 if tier == "quick" else 300):
            f1, e1 = gen_table(rng, "single")
            f2, e2 = gen_table(rng, "single")
            with open(os.path.join(tmp, "a.tbl"), "w", encoding="utf-8") as fh:
                fh.write(f1)
            with open(os.path.join(tmp, "b.tbl"), "w", encoding="utf-8") as fh:
                fh.write(f2)
            t1 = [t for t, _, _ in e1 if "'" not in t and "\\" not in t]
            t2 = [t for t, _, _ in e2 if "'" not in t and "\\" not in t]
            if not t1 or not t2:
                continue
            t1 = [t for t in t1 if "[" not in t and "\n" not in t]
            t2 = [t for t in t2 if "[" not in t and "\n" not in t]
            if not t1 or not t2:
                continue
            # raw-byte escapes (six characters, one byte) and characters without an entry (one character, no byte)
            unknown = [c for c in "~^|\u00e9" if all(c not in t for t, _, _ in e1 + e2)]
            extra = ["[0x05]", "[0xfe]", "[0x00]"] + unknown
            pick = lambda tt: rng.choice(tt) if rng.random() < 0.75 else rng.choice(extra)  # noqa: E731
            s1_ = "".join(pick(t1) for _ in range(rng.randrange(1, 6)))
            s2_ = "".join(pick(t1) for _ in range(rng.randrange(1, 6)))
            s3_ = "".join(pick(t2) for _ in range(rng.randrange(1, 6)))
            depth = rng.randrange(1, 4)
            opens = "".join(rng.choice(["{\n", ".scope sc%d {\n" % k]) for k in range(depth))
            if i % 3 == 2:
                # a scope that switches tables between two .text directives; an inner scope that emits under the
                # enclosing table and only then loads its own
                src = (f"*=0x008000\n.table 'a.tbl'\n.text '{s1_}'\nl1:\n{{\n.text '{s2_}'\nl2:\n.table 'b.tbl'\n.text '{s3_}'\nl3:\n}}\n.text '{s1_}'\nl4:\n")
            else:
                src = (f"*=0x008000\n.table 'a.tbl'\n.text '{s1_}'\nl1:\n{opens}.text '{s2_}'\nl2:\n" + "}\n" * depth +
                       f"{{\n.table 'b.tbl'\n.text '{s3_}'\nl3:\n}}\n.text '{s1_}'\nl4:\n")
            r = impl.assemble(src, cwd=tmp)
            ta, tbb = Table(os.path.join(tmp, "a.tbl")), Table(os.path.join(tmp, "b.tbl"))
            exp = [ta.to_bytes(s1_), ta.to_bytes(s2_), tbb.to_bytes(s3_), ta.to_bytes(s1_)]
            s2.cases += 1
            s2.nontrivial.add((depth, len(e1), len(e2)))
            if r["status"] != "ok":
                s2.violate({"src": src, "a.tbl": f1, "b.tbl": f2}, "assembled", r.get("exc") or r.get("error"), "program with .table/.text rejected")
                continue
            data = b"".join(b for _, b in r["blocks"])
            if data != b"".join(exp):
                s2.violate({"src": src, "a.tbl": f1, "b.tbl": f2}, b"".join(exp).hex(), data.hex(), ".text bytes in program differ from the table encoding (table inheritance / order)")
            labs = dict((k, v) for k, v in r["labels"])
            addr = 0x8000
            for name, e in zip(("l1", "l2", "l3", "l4"), exp):
                addr += len(e)
                if labs.get(name) != addr:
                    s2.violate({"src": src}, hex(addr), labs.get(name), f"label {name} after .text is not start + emitted size")
                    break
        # a .text inside a macro body (or a loop body applying it) expanded under different effective tables: every
        # expansion is encoded with the table in effect where it is expanded
        for i in range(12 if tier == "quick" else 150):
            f1, e1 = gen_table(rng, "single")
            f2, e2 = gen_table(rng, "single")
            for nm, ft in (("a.tbl", f1), ("b.tbl", f2)):
                with open(os.path.join(tmp, nm), "w", encoding="utf-8") as fh:
                    fh.write(ft)
            ok_ = lambda t: all(c not in t for c in "'\\[\n")  # noqa: E731
            common = [t for t, _, _ in e1 if ok_(t) and any(t == u for u, _, _ in e2)] or [t for t, _, _ in e1 if ok_(t)]
            if not common:
                continue
            msg = "".join(rng.choice(common) for _ in range(rng.randrange(1, 5)))
            shape = i % 3
            if shape == 0:
                src = f"*=0x008000\n.macro say_zq() {{\n.text '{msg}'\n}}\n.table 'a.tbl'\nsay_zq()\nl1:\n.scope sc_zq {{\n.table 'b.tbl'\nsay_zq()\nl2:\n}}\nsay_zq()\nl3:\n"
                tabs = ["a", "b", "a"]
            elif shape == 1:
                src = f"*=0x008000\n.macro say_zq() {{\n.text '{msg}'\n}}\n.table 'a.tbl'\nsay_zq()\nl1:\n.table 'b.tbl'\nsay_zq()\nl2:\n{{\n.table 'a.tbl'\nsay_zq()\nl3:\n}}\n"
                tabs = ["a", "b", "a"]
            else:
                src = f"*=0x008000\n.macro say_zq() {{\n.text '{msg}'\n}}\n.table 'b.tbl'\n.for k_zq := 0, 2 {{\nsay_zq()\n}}\nl1:\n{{\n.table 'a.tbl'\n.for k_zq := 0, 1 {{\nsay_zq()\n}}\nl2:\n}}\nsay_zq()\nl3:\n"
                tabs = ["b", "b", "a", "b"]
            ta, tbb = Table(os.path.join(tmp, "a.tbl")), Table(os.path.join(tmp, "b.tbl"))
            exp = b"".join((ta if t == "a" else tbb).to_bytes(msg) for t in tabs)
            r = impl.assemble(src, cwd=tmp)
            s2.cases += 1
            s2.count("text-in-macro-under-tables")
            data = b"".join(b for _, b in r["blocks"]) if r["status"] == "ok" else None
            if data != exp:
                s2.violate({"src": src, "a.tbl": f1, "b.tbl": f2}, exp.hex(), data.hex() if data is not None else (r.get("exc") or r.get("error")),
                           "a .text inside a macro body expanded under different tables is not encoded with the table in effect at each expansion")
        # quoted texts with escaped quotes (also as the last character) over a table that has an entry for the quote
        qt = "41=A\n42=B\n27='\n2d=-\n"
        with open(os.path.join(tmp, "q.tbl"), "w", encoding="utf-8") as fh:
            fh.write(qt)
        qmap = {"A": 0x41, "B": 0x42, "'": 0x27, "-": 0x2d}
        for i in range(12 if tier == "quick" else 120):
            pieces = [rng.choice(["A", "B", "-", "\\'", "\\'", "AB"]) for _ in range(rng.randrange(1, 5))]
            if i % 2 == 0:
                pieces.append("\\'")
            body = "".join(pieces)
            exp = bytes(qmap[c] for c in body if c in qmap)
            src = f"*=0x008000\n.table 'q.tbl'\n.text '{body}'\nl1:\n.dw l1\n"
            r = impl.assemble(src, cwd=tmp)
            s2.cases += 1
            s2.count("escaped-quote")
            data = b"".join(b for _, b in r["blocks"]) if r["status"] == "ok" else None
            want = exp + (0x8000 + len(exp)).to_bytes(2, "little")
            if data != want:
                s2.violate({"src": src, "q.tbl": qt}, want.hex(), data.hex() if data is not None else (r.get("exc") or r.get("error")),
                           ".text with escaped quotes: bytes / following label differ from the table encoding of the quoted text")
        # runs of .text directives directly after one another under tables with multi-character entries: each directive
        # is encoded on its own (an entry or a [0xNN] escape never matches across the junction of two directives)
        for i in range(16 if tier == "quick" else 200):
            ftext, entries = gen_table(rng, "general" if i % 2 else "prefixfree")
            if any(t == "BAD" for t, _, _ in entries):
                continue
            multi = [t for t, _, _ in entries if len(t) >= 2 and "'" not in t and "\\" not in t and "\n" not in t]
            with open(os.path.join(tmp, "m.tbl"), "w", encoding="utf-8") as fh:
                fh.write(ftext)
            try:
                tm = Table(os.path.join(tmp, "m.tbl"))
            except Exception:  # noqa: BLE001
                continue
            strs = []
            for _ in range(rng.randrange(2, 5)):
                if multi and rng.random() < 0.7:
                    # split a multi-character entry between two directives
                    t = rng.choice(multi)
                    k = rng.randrange(1, len(t))
                    strs += [t[:k], t[k:]]
                elif rng.random() < 0.3:
                    strs += ["[0x", "41]"] if rng.random() < 0.5 else ["[0x4", "1]"]
                else:
                    strs.append(gen_string(rng, entries).replace("'", "").replace("\\", "").replace("\n", ""))
            strs = [x for x in strs if x.strip(" ") == x or True]
            with_labels = rng.random() < 0.25
            src = "*=0x008000\n.table 'm.tbl'\n" + "".join(f".text '{x}'\n" + (f"l_mid{k}:\n" if with_labels else "") for k, x in enumerate(strs)) + "l_end:\n.dw l_end\n"
            try:
                exp = b"".join(tm.to_bytes(x) for x in strs)
            except Exception:  # noqa: BLE001
                continue
            spec = drv.ask([f"spec.tblenc {';'.join(hx(t) + '=' + (c.hex() or '-') for t, c, _ in entries) or '-'} {hx(x)}" for x in strs])
            if all(sp.startswith("some") for sp in spec):
                exp_spec = b"".join(bytes.fromhex(sp[5:]) if len(sp) > 5 and sp[5:] != "-" else b"" for sp in spec)
            else:
                exp_spec = None
            r = impl.assemble(src, cwd=tmp)
            s2.cases += 1
            s2.count("consecutive-text")
            s2.nontrivial.add(("consecutive", len(strs), bool(multi)))
            data = b"".join(b for _, b in r["blocks"]) if r["status"] == "ok" else None
            want = (exp_spec if exp_spec is not None else exp)
            want2 = want + (0x8000 + len(want)).to_bytes(2, "little")
            if data != want2:
                s2.violate({"src": src, "m.tbl": ftext}, want2.hex(), data.hex() if data is not None else (r.get("exc") or r.get("error")),
                           "consecutive .text directives: each must emit the longest-match codes of its own string and occupy exactly those bytes")
        s2.sample({"shape": ".table a / .text / { .text } / { .table b / .text } / .text"})
        return [s, s2]
    finally:
        shutil.rmtree(tmp, ignore_errors=True)
