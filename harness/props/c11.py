"""C11 — IPS writer: real IPSWriter vs model; oracle = standard reader (Spec.Ips.parse) + patch application."""
from __future__ import annotations

import io

import core
import impl


def real_write(copier, blocks):
    from a816.writers import IPSWriter
    f = io.BytesIO()
    try:
        with core.watchdog(10):
            w = IPSWriter(f, copier)
            w.begin()
            for a, d in blocks:
                w.write_block(bytes(d), a)
            w.end()
        return "ok", f.getvalue()
    except core.Timeout:
        return "hang", "no result within 10 s"
    except Exception as e:  # noqa: BLE001
        return "err", type(e).__name__


def parse_blocks(s):
    if s == "-":
        return []
    out = []
    for item in s.split(";"):
        a, h = item.split(":")
        out.append((int(a), b"" if h == "-" else bytes.fromhex(h)))
    return out


def apply(records, img=None):
    img = {} if img is None else img
    for off, data in records:
        for k, b in enumerate(data):
            img[off + k] = b
    return img


def gen_blocks(rng, tier):
    n = rng.choice([1, 1, 2, 3, 4])
    out = []
    kmax = 2 if tier == "quick" else 3
    for _ in range(n):
        lens = [0, 1, 2, 300] + [k * 65535 + d for k in range(1, kmax + 1) for d in (-1, 0, 1)]
        ln = rng.choice(lens if rng.random() < 0.5 else [0, 1, 5, 17, 300])
        r = rng.random()
        if r < 0.25:
            base = 0x454F46
            a = base - rng.choice([0, 0x200, 65535, 65535 + 0x200, 2 * 65535, 1, -1, 0x1FF, 0x201, ln, ln - 1, ln + 1, ln + 0x200, ln + 0x1FF, max(ln // 2, 1), 16])
        elif r < 0.4:
            a = (1 << 24) - rng.choice([0, 1, 2, 0x200, 0x201, ln, ln + 1, ln + 0x200, 65535, 65536])
        elif r < 0.45:
            a = -rng.choice([1, 0x200, 0x1FF, 0x201])
        else:
            a = rng.randrange(1 << 24)
        data = bytes(rng.randrange(256) for _ in range(min(ln, 64))) + bytes([rng.randrange(256)]) * max(0, ln - 64)
        if rng.random() < 0.3:
            # a block of one repeated value (padding, a cleared table, a NOP sled), of any length
            ln = rng.choice([ln, 2, 3, 4, 5, 8, 16, 256, 4096, 65535])
            data = bytes([rng.choice([0, 0xFF, 0xEA, rng.randrange(256)])]) * ln
        out.append((a, data))
    return out


def run(ctx):
    tier, seed = ctx["tier"], ctx["seed"]
    drv = core.Driver()
    rng = core.rng_for(seed, "c11")
    s = core.Stream("S8-ipsw", "write sequences (lengths 0,1,k*65535+{-1,0,1}; addresses near 0x454F46, near 2^24, negative, random; copier header on/off) through the real IPSWriter vs model; oracle: Spec.Ips.parse reads the file, record sizes 1..65535, applying = direct writes (+0x200), unrepresentable offsets refused; non-trivial = distinct (copier, #blocks, length classes, outcome)")
    cases = [(False, [(0x8000, b"\x01\x02\x03")]), (False, [(0x454F46, b"abc")]), (True, [(0x454D46, b"a")]),
             (False, [(0, b"")]), (False, [(0x454F46, b"")]), (False, [(0x454F46 - 65535, b"\x07" * 65536)]),
             (True, [(0xFFFE00, b"\x01")]), (False, [(0xFFFFFF, b"\x01\x02")]), (False, [(1 << 24, b"\x01")])]
    # sessions without a single non-empty block, and overlapping rewrites (the same block written again after another
    # block overlapped it: every write is applied, in order)
    cases += [(False, []), (True, []), (False, [(0x10, b""), (0x20, b"")]), (True, [(0x8000, b"")])]
    for _ in range(12 if tier == "quick" else 120):
        x = rng.randrange(0, 0x10000)
        a = bytes(rng.randrange(256) for _ in range(rng.randrange(2, 6)))
        k = rng.randrange(1, len(a))
        cblk = bytes(rng.randrange(256) for _ in range(rng.randrange(1, 4)))
        cases.append((rng.random() < 0.5, [(x, a), (x + k, cblk), (x, a)]))
        cases.append((rng.random() < 0.5, [(x, a), (x, a), (x + k, cblk), (x, a), (x, a)]))
        cases.append((False, [(x + k, cblk), (x, a), (x - 1 if x else x, cblk + a), (x, a)]))
    # adjacency and overlap together: A, then B over the bytes just past A's end, then C starting exactly at A's end (and
    # mirrored / longer variants): records are applied in write order, whatever could be merged
    for _ in range(12 if tier == "quick" else 120):
        x = rng.randrange(0x100, 0x10000)
        la, lb, lc = rng.randrange(1, 6), rng.randrange(2, 6), rng.randrange(1, 4)
        rb = lambda n: bytes(rng.randrange(256) for _ in range(n))  # noqa: E731
        cases.append((rng.random() < 0.5, [(x, rb(la)), (x + la - rng.randrange(0, 2), rb(lb)), (x + la, rb(lc))]))
        cases.append((rng.random() < 0.5, [(x + la, rb(lc)), (x + la - 1, rb(lb)), (x, rb(la)), (x + la + lc, rb(2))]))
        cases.append((False, [(x, rb(la)), (x + la + 1, rb(lb)), (x + la, rb(lc + 2)), (x + la + lc + 2, rb(1))]))
    for _ in range(150 if tier == "quick" else 1500):
        cases.append((rng.random() < 0.5, gen_blocks(rng, tier)))
    ops = [f"ipsw {1 if c else 0} " + (";".join(f"{a}:{d.hex() or '-'}" for a, d in bl) or "-") for c, bl in cases]
    model = drv.ask(ops)
    real = [real_write(c, bl) for c, bl in cases]
    spec = drv.ask(["spec.ipsparse " + (r[1].hex() if r[0] == "ok" else "-") for r in real])
    for (c, bl), m_, r, sp in zip(cases, model, real, spec):
        s.cases += 1
        shift = 0x200 if c else 0
        cls = tuple(sorted({(0 if len(d) == 0 else 1 if len(d) < 65535 else 2 if len(d) == 65535 else 3) for _, d in bl}))
        s.nontrivial.add((c, len(bl), cls, r[0]))
        s.count("accepted" if r[0] == "ok" else "refused:" + r[1])
        if r[0] == "hang":
            s.violate({"copier": c, "blocks": [(hex(a) if a >= 0 else a, len(d)) for a, d in bl]}, "a file or a refusal", r[1], "the IPS writer does not terminate on this write sequence")
            continue
        got = "ok " + r[1].hex() if r[0] == "ok" else "err"
        mm = m_ if m_.startswith("ok") else "err"
        if got != mm:
            s.disagree({"copier": c, "blocks": [(a, len(d)) for a, d in bl]}, m_[:80], got[:80])
        # which (shifted) record offsets occur
        unrep = False
        for a, d in bl:
            k = 0
            while k < len(d):
                off = a + shift + k
                if off < 0 or off >= (1 << 24) or off == 0x454F46:
                    unrep = True
                k += min(0xFFFF, len(d) - k)
        inp = {"copier": c, "blocks": [(hex(a) if a >= 0 else a, len(d), d[:4].hex()) for a, d in bl]}
        if unrep:
            s.count("unrepresentable")
            if r[0] == "ok":
                s.violate(inp, "refused", "file written", "an offset IPS cannot represent (negative, >= 2^24 or reading as EOF) was written instead of refused")
            continue
        if r[0] != "ok":
            s.violate(inp, "file", r[1], "a representable write sequence was refused")
            continue
        data = r[1]
        if not (data.startswith(b"PATCH") and data.endswith(b"EOF")):
            s.violate(inp, "PATCH...EOF", data[:8].hex(), "file is not PATCH + records + EOF")
            continue
        if not sp.startswith("some"):
            s.violate(inp, "well-formed records", sp, "the standard IPS reader cannot read the file")
            continue
        recs = parse_blocks(sp[5:] if len(sp) > 5 else "-")
        if any(not (1 <= len(d) <= 65535) for _, d in recs):
            s.violate(inp, "record sizes 1..65535", [len(d) for _, d in recs], "a record has an invalid size")
        if apply(recs) != apply([(a + shift, d) for a, d in bl]):
            s.violate(inp, "direct writes", "different image", "applying the patch does not write exactly the blocks at their addresses")
        if sum(len(d) for _, d in recs) != sum(len(d) for _, d in bl):
            s.violate(inp, sum(len(d) for _, d in bl), sum(len(d) for _, d in recs), "records do not cover the blocks exactly once")
    s.sample({"op": ops[0], "model": model[0]})
    s.sample({"op": ops[12][:120], "model": model[12][:80]})
    return [s]
