"""C19 — independence and repeatability: a probe assembled after a history of other assemblies in one process vs
the probe alone in a fresh interpreter; monitor of every module/class-level mutable object (frame condition)."""
from __future__ import annotations

import multiprocessing as mp
import os
import shutil
import sys

import core
import gen_program

HARNESS = os.path.dirname(os.path.dirname(os.path.abspath(__file__)))


def _fingerprint():
    """canonical digest of every module-level / class-level mutable object and function default reachable from the
    a816 and script packages (the same walk as harness/extract.py `globals`)"""
    import hashlib
    import importlib
    import pkgutil
    import types
    import a816
    import script
    seen = {}

    def canon(o, depth=0):
        if depth > 8:
            return "…"
        if isinstance(o, (int, float, str, bytes, bool, type(None))):
            return repr(o)
        if isinstance(o, (list, tuple)):
            return "[" + ",".join(canon(x, depth + 1) for x in o) + "]"
        if isinstance(o, (set, frozenset)):
            return "{" + ",".join(sorted(canon(x, depth + 1) for x in o)) + "}"
        if isinstance(o, dict):
            return "{" + ",".join(sorted(canon(k, depth + 1) + ":" + canon(v, depth + 1) for k, v in o.items())) + "}"
        if isinstance(o, (types.FunctionType, types.ModuleType, type, types.BuiltinFunctionType, types.MethodType)):
            return getattr(o, "__qualname__", getattr(o, "__name__", "?"))
        if id(o) in seen:
            return "<cycle>"
        seen[id(o)] = True
        d = getattr(o, "__dict__", None)
        r = type(o).__name__ + (canon(d, depth + 1) if isinstance(d, dict) else "")
        del seen[id(o)]
        return r

    items = []
    for pkg in (a816, script):
        mods = [pkg]
        for mi in pkgutil.walk_packages(pkg.__path__, pkg.__name__ + "."):
            if not mi.name.endswith("__main__"):
                mods.append(importlib.import_module(mi.name))
        for mod in mods:
            for name, val in sorted(vars(mod).items()):
                if name.startswith("__"):
                    continue
                own = getattr(val, "__module__", None)
                if isinstance(val, (dict, list, set, bytearray)):
                    items.append((f"{mod.__name__}.{name}", canon(val)))
                elif isinstance(val, (int, float)) and not isinstance(val, bool):
                    items.append((f"{mod.__name__}.{name}", repr(val)))      # module-level counters / limits
                elif isinstance(val, type) and own == mod.__name__:
                    for an, av in sorted(vars(val).items()):
                        if an.startswith("__"):
                            continue
                        if isinstance(av, (dict, list, set, bytearray)):
                            items.append((f"{mod.__name__}.{name}.{an}", canon(av)))
                        if isinstance(av, (int, float)) and not isinstance(av, bool):
                            items.append((f"{mod.__name__}.{name}.{an}", repr(av)))
                        if isinstance(av, types.FunctionType) and av.__defaults__:
                            items.append((f"{mod.__name__}.{name}.{an}.__defaults__", canon(av.__defaults__)))
                elif isinstance(val, types.FunctionType) and own == mod.__name__:
                    if val.__defaults__:
                        items.append((f"{mod.__name__}.{name}.__defaults__", canon(val.__defaults__)))
                    if val.__kwdefaults__:
                        items.append((f"{mod.__name__}.{name}.__kwdefaults__", canon(val.__kwdefaults__)))
                elif own and own.split(".")[0] in ("a816", "script") and not isinstance(val, (types.ModuleType, type, str, int, float, bytes, tuple, frozenset, type(None))):
                    items.append((f"{mod.__name__}.{name}", canon(val)))
    return {k: hashlib.sha1(v.encode()).hexdigest()[:12] for k, v in items}


_KEPT: list = []


def _assemble(job, tmp):
    """one assembly through the file API or the string API; canonical result"""
    sys.path.insert(0, HARNESS)
    import impl
    impl.write_files(tmp, job.get("files"), job.get("bins"))
    if job.get("api") == "file":
        # the file API on a source that lives in another directory than the process' working directory
        from a816.program import Program
        sub = os.path.join(tmp, "sub")
        os.makedirs(sub, exist_ok=True)
        impl.write_files(sub, job.get("files"), job.get("bins"))
        path = os.path.join(sub, "prog.s")
        with open(path, "w", encoding="utf-8") as fh:
            fh.write(job["src"])
        out = os.path.join(tmp, "shared_out.ips")   # every file-API assembly of a history writes to the same path
        if job.get("fmt") == "sfc":
            out = os.path.join(tmp, "shared_out.sfc")
        with impl.quiet():
            try:
                if job.get("fmt") == "sfc":
                    from pathlib import Path
                    st = Program().assemble(path, Path(out))
                else:
                    st = Program().assemble_as_patch(path, out)
            except BaseException as e:  # noqa: BLE001
                st = type(e).__name__
                _KEPT.append(e)    # a caller may keep the exception (and its traceback) around, e.g. to report it later
        if job.get("read_output"):
            _KEPT.clear()
            import gc
            gc.collect()
            data = open(out, "rb").read().hex() if os.path.exists(out) else "-"
            return f"file-api {st} {data}"
        return f"file-api {st}"
    # the process' working directory (set once, at the start of the child) is part of what a later assembly sees
    r = impl.assemble(job["src"], job["rom"], cwd=None)
    import re
    err = re.sub(r" at 0x[0-9a-fA-F]+", " at ADDR", str(r["error"]))   # object addresses are not part of the result
    return impl.canon(r) + (" E=" + err[:160] if r["status"] != "ok" else "")


def _child(args):
    """runs in a fresh interpreter (spawn): history, then the probe; returns probe result and monitor findings"""
    history, probe, tmp, repo = args
    os.environ["A816_REPO"] = repo
    sys.path.insert(0, HARNESS)
    import core as _core  # noqa: F401  (sets REPO on sys.path through impl)
    import impl  # noqa: F401
    changed = []
    os.chdir(tmp)
    fp0 = _fingerprint()
    for j, job in enumerate(history):
        try:
            _assemble(job, tmp)
        except BaseException:  # noqa: BLE001
            pass
        fp1 = _fingerprint()
        diff = sorted(k for k in set(fp0) | set(fp1) if fp0.get(k) != fp1.get(k))
        if diff:
            changed.append((j, diff[:5]))
        fp0 = fp1
    res = _assemble(probe, tmp)
    res2 = _assemble(probe, tmp)
    return res, res2, changed


def vocab_program(rng, kind, drv):
    """history / probe programs that share a vocabulary of macro names, symbol names, table files and .map layouts"""
    if kind == "macros":
        body = rng.choice([".db v, 1", "lda #v\nrts", ".dw v + 2"])
        return {"src": f".macro load(v) {{\n{body}\n}}\n.macro twice(v) {{\nload(v)\nload(v)\n}}\n*=0x008000\ntwice({rng.randrange(200)})\n", "rom": "low_rom"}
    if kind == "symbols":
        return {"src": f"*=0x008000\nSHARED := {rng.randrange(1, 200)}\nOTHER = SHARED + 1\nshared_label:\n.db SHARED, OTHER\n.dw shared_label\n", "rom": "low_rom"}
    if kind == "table":
        ents = rng.sample(["10=A", "20=t", "21=h", "22=e", "02=B", "0304=the", "41=a", "42=b", "4344=ab"], 5)
        return {"src": "*=0x008000\n.table 'voc.tbl'\n.text 'ABthe ab'\n", "rom": "low_rom", "files": {"voc.tbl": "\n".join(ents) + "\n"}}
    if kind == "map-builtin-ids":
        # a layout that re-uses the identifiers of the built-in buses on banks those give to something else
        lo, hi = rng.choice([(0xc0, 0xff), (0x40, 0x6f), (0x80, 0xbf), (0x00, 0x3f)])
        ident = rng.choice([1, 2])
        return {"src": f".map identifier={ident} bank_range=0x{lo:x},0x{hi:x} addr_range=0x8000,0xffff mask=0x8000\n*=0x{lo + 1:02x}8000\n.db 1,2,3\nl:\n.dl l\n", "rom": rng.choice(["low_rom", "high_rom"])}
    if kind == "plain-banks":
        rom = rng.choice(["low_rom", "high_rom"])
        banks = [0xc0, 0xc1, 0xff, 0x40, 0x41] if rom == "high_rom" else [0x00, 0x01, 0x40, 0x80, 0x81, 0xc0]
        body = "".join(f"*=0x{b:02x}{rng.choice([0x8000, 0x9000, 0xfff0]):04x}\n.db {rng.randrange(256)}\nl{k}:\n.dl l{k}\n" for k, b in enumerate(rng.sample(banks, 3)))
        return {"src": body, "rom": rom}
    if kind == "map":
        mask = rng.choice([0x8000, 0x10000])
        base = 0x10000 - mask
        lo = rng.choice([0x00, 0x01, 0x10])
        return {"src": f".map identifier=1 bank_range=0x{lo:x},0x3f addr_range=0x{base:x},0xffff mask=0x{mask:x}\n.map identifier=2 bank_range=0x7e,0x7f addr_range=0,0xffff mask=0x10000 writable=1\n*=0x018000\n.db 1,2,3\nl:\n*=0x028004\n.dl l\n", "rom": "low_rom"}
    if kind == "include":
        # the same file name, a different content each time (files are part of the input, not of the process state)
        body = rng.choice([f".db {rng.randrange(256)}, {rng.randrange(256)}\n", f"inc_label:\nlda #{rng.randrange(256)}\n.dw inc_label\n",
                           f".macro put(v) {{\n.db v, {rng.randrange(256)}\n}}\nput({rng.randrange(256)})\n", f"level = {rng.randrange(1, 200)}\n.db level\n"])
        return {"src": "*=0x008000\n.include 'voc_inc.s'\n.db 0xee\nafter_inc:\n.dw after_inc\n", "rom": "low_rom", "files": {"voc_inc.s": body}}
    if kind == "incbin":
        ln = rng.choice([0, 1, 3, 5, 64])
        return {"src": "*=0x008000\n.db 1\n.incbin 'voc.bin'\nafter_bin:\n.dw voc_bin__size\n.dl voc_bin, after_bin\n", "rom": "low_rom", "bins": {"voc.bin": bytes(rng.randrange(256) for _ in range(ln))}}
    if kind == "ips":
        recs = b"".join((rng.randrange(0x100, 0x4000)).to_bytes(3, "big") + (n_ := rng.randrange(1, 5)).to_bytes(2, "big") + bytes(rng.randrange(256) for _ in range(n_)) for _ in range(rng.randrange(1, 4)))
        return {"src": f"*=0x008000\n.db 7\n.include_ips 'voc.ips', {rng.choice([0, 0x10, -0x10, 0x200])}\n.db 8\n", "rom": "low_rom", "bins": {"voc.ips": b"PATCH" + recs + b"EOF"}}
    if kind == "alias-labels":
        # several labels at one address, several times: their order in the label list is the order of definition, in
        # every process (nothing may depend on the per-process string hash seed)
        body = "".join(f"al{k}_a:\nal{k}_b:\nal{k}_zq:\n.db {rng.randrange(256)}\n" for k in range(6))
        return {"src": "*=0x008000\n" + body + "end_a:\nend_b:\n", "rom": "low_rom"}
    if kind == "file-sfc":
        # an image written to the shared output path by an earlier assembly (larger than what a probe writes), or one that
        # fails after having written its first block
        return {"src": rng.choice([f"*=0x028000\n.db {rng.randrange(256)}, 2, 3\n", f"*=0x008000\n.db 5\n*=0x01fff0\n.db {rng.randrange(256)}, 7\n",
                                   "*=0x038000\n.db 1,2,3,4\n*=0x048000\nbra far_zq + 300\nfar_zq:\n"]), "rom": "low_rom", "api": "file", "fmt": "sfc"}
    if kind == "file-sfc-probe":
        return {"src": f"*=0x008000\n.db {rng.randrange(256)}, {rng.randrange(256)}, 0xEE\n", "rom": "low_rom", "api": "file", "fmt": "sfc", "read_output": True}
    if kind == "file-probe":
        return {"src": f"*=0x018000\n.db {rng.randrange(256)}, {rng.randrange(256)}, 0xEE\n", "rom": "low_rom", "api": "file", "read_output": True}
    if kind == "file-failing":
        return {"src": rng.choice(["*=0x008000\nlda.w nothing_defined\n", "*=0x008000\n.db 1\nlda.q 2\n", "*=0x008000\n}\n", ".include 'gone.s'\n", "*=0x008000\n.db 1\n",
                                   "*=0x008000\n.db 1,2,3,4,5,6,7,8\n*=0x028000\nbra far_zq + 300\nfar_zq:\n", "*=0x008000\n.db 9,9,9,9,9,9,9,9,9,9\n*=0x028000\n.db 256 * 256 * 256 * 256\nlda.l -1\n"]),
                "rom": "low_rom", "api": "file", "files": {"voc_inc.s": ".db 0x99\n"}}
    if kind == "failing":
        return {"src": rng.choice(["*=0x008000\nlda.w nothing_defined\n", "*=0x008000\n.db 1\nlda.q 2\n", "*=0x008000\n.macro half(v) {\n.db v\n", "*=0x008000\n.db 1\n*=0x700000\n.db 2\n", "*=0x008000\nload(5)\n", ".include 'gone.s'\n", "*=0x008000\nSHARED := 3\n.db SHARED\nbra shared_label + 300\n",
                                   # failures in the middle of nested expansions
                                   "*=0x008000\n.macro load(v) {\n.db v\nload(v + 1)\n}\nload(0)\n", "*=0x008000\n.macro ping(v) {\npong(v)\n}\n.macro pong(v) {\nping(v)\n}\nping(1)\n",
                                   "*=0x008000\n.macro load(v) {\n.db v\nno_such_macro(v)\n}\n.macro twice(v) {\nload(v)\nload(v)\n}\ntwice(1)\n", "*=0x008000\n.macro load(v) {\n{{v}}\n}\nload(3)\n",
                                   "*=0x008000\n.for i := 0, 3 {\n{\n.scope deep {\nlda.w nothing_defined\n}\n}\n}\n", "*=0x008000\n.if 1 {\n.for i := 0, 2 {\nload(i)\n}\n}\n"]), "rom": "low_rom"}
    if kind == "uses-undefined":
        return {"src": rng.choice(["*=0x008000\nload(0x34)\nrts\n", "*=0x008000\n.db SHARED\n", "*=0x008000\n.dw shared_label\n", "*=0x008000\n.text 'ABthe'\n", "*=0x008000\ntwice(3)\n"]), "rom": "low_rom"}
    pr = gen_program.generate(rng, drv)
    return {"src": pr["src"], "rom": pr["rom"], "files": pr["files"], "bins": pr["bins"]}


def run(ctx):
    tier, seed = ctx["tier"], ctx["seed"]
    rng = core.rng_for(seed, "c19")
    drv = core.Driver()
    tmp = core.tmpdir()
    try:
        s = core.Stream("S19-history", "histories of 1-5 assemblies (valid generated programs, programs defining macros / symbols / tables / custom .map layouts with different geometries, programs failing in each phase, different ROM types) followed by a probe (valid, failing, using names only a history program defines, loading its own table / map), all in one fresh interpreter, vs the probe alone in another fresh interpreter; the probe is also repeated; monitor: every module/class-level mutable object and function default of the a816 and script packages is fingerprinted before and after each assembly; non-trivial = distinct (history kinds, probe kind)")
        kinds = ["macros", "symbols", "table", "map", "failing", "generated", "generated", "include", "incbin", "ips", "file-failing", "file-sfc", "map-builtin-ids"]
        probes = ["uses-undefined", "table", "map", "generated", "symbols", "failing", "macros", "include", "incbin", "ips", "file-probe", "plain-banks", "file-sfc-probe", "alias-labels"]
        jobs = []
        n = 60 if tier == "quick" else 500
        for i in range(n):
            hk = [rng.choice(kinds) for _ in range(rng.randrange(1, 6))]
            pk = probes[i % len(probes)]
            # make histories relevant to the probe kind half of the time
            if rng.random() < 0.6:
                hk[rng.randrange(len(hk))] = {"uses-undefined": rng.choice(["macros", "symbols", "table"]), "table": "table", "map": "map", "plain-banks": "map-builtin-ids", "include": "include", "incbin": "incbin", "ips": "ips", "file-probe": "file-failing", "file-sfc-probe": "file-sfc"}.get(pk, pk if pk in kinds else "generated")
            if pk == "uses-undefined":
                hk = hk[:2] + ["macros", "symbols", "table"]   # the names the probe uses are all defined by the history
            history = [vocab_program(rng, k, drv) for k in hk]
            if i % 10 == 9:
                # a burst of failing assemblies (every phase, also inside nested includes) before the probe
                hk = hk + ["failing-burst"]
                chain = {f"deep{k}.s": f".include 'deep{k + 1}.s'\n" for k in range(5)}
                chain["deep5.s"] = "lda #\n"
                for k in range(22):
                    history.append({"src": rng.choice(["lda #\n", "*=0x008000\n.db 1,\n", "}\n", ".macro m(\n", ".include 'deep0.s'\n", "lda.q 1\n", ".ascii 'x\n", "*=0x008000\nbra far + 300\nfar:\n"]),
                                    "rom": "low_rom", "files": chain})
            probe = vocab_program(rng, pk, drv)
            if pk == "macros":
                # always: a history program that fails in the middle of (runaway / nested) macro expansions
                history.insert(rng.randrange(len(history) + 1), {"src": rng.choice([
                    "*=0x008000\n.macro load(v) {\n.db v\nload(v + 1)\n}\nload(0)\n", "*=0x008000\n.macro ping(v) {\npong(v)\n}\n.macro pong(v) {\nping(v)\n}\nping(1)\n",
                    "*=0x008000\n.macro load(v) {\n.db v\nload(v + 1)\n}\n.macro twice(v) {\nload(v)\n}\ntwice(1)\n"]), "rom": "low_rom"})
                hk = hk + ["failing-in-macro"]
            if pk == "map":
                # always: a history program with a custom layout of another geometry over the same banks and addresses
                for _ in range(8):
                    other = vocab_program(rng, "map", drv)
                    if other["src"].split("\n")[0] != probe["src"].split("\n")[0]:
                        history[0] = other
                        hk[0] = "map"
                        break
            d1 = os.path.join(tmp, f"h{i}")
            d2 = os.path.join(tmp, f"a{i}")
            os.makedirs(d1)
            os.makedirs(d2)
            jobs.append((history, probe, d1, core.REPO, tuple(hk), pk, d2))
        ctxm = mp.get_context("spawn")
        with ctxm.Pool(min(16, len(jobs))) as pool:
            with_hist = pool.map(_child, [(h, p, d1, repo) for h, p, d1, repo, _, _, _ in jobs], chunksize=1)
            alone = pool.map(_child, [([], p, d2, repo) for h, p, d1, repo, _, _, d2 in jobs], chunksize=1)
        for (history, probe, d1, repo, hk, pk, d2), (res, res2, changed), (ares, ares2, _) in zip(jobs, with_hist, alone):
            s.cases += 1
            s.nontrivial.add((hk, pk))
            s.count("probe:" + pk)
            s.count("probe-result:" + res.split(" ")[0] + (":" + res.split(" ")[1] if res.startswith("raised") else ""))
            inp = {"history": [h["src"] for h in history], "history_files": [h.get("files") for h in history], "probe": probe["src"], "probe_files": probe.get("files")}
            if res != ares:
                s.violate(inp, ares[:200], res[:200], "the probe's result after this history differs from its result alone in a fresh process")
            elif res2 != res or ares2 != ares:
                s.violate(inp, res[:200], res2[:200], "repeating the assembly gives a different result")
            elif changed:
                # frame condition broken: shared state changed although this probe is not affected (yet)
                s.disagree(inp, "no module/class-level object changes during an assembly", str(changed[:3]), "S19 monitor: frame condition of C19.history_irrelevant")
        s.sample({"history_kinds": jobs[0][4], "probe_kind": jobs[0][5], "probe": jobs[0][1]["src"][:200]})
        return [s]
    finally:
        shutil.rmtree(tmp, ignore_errors=True)
