"""C14 — a failed assembly is never reported as success: every definite error class injected into valid programs,
through the four entry points; status / announcement vs the in-memory outcome; decision logic vs the model."""
from __future__ import annotations

import core
import gen_program
import impl
import pipeline
from props import frontends

FAULTS = [
    ("lexical", "lda.q #1"),
    ("lexical-string", ".ascii 'abc"),
    ("syntax", "lda #"),
    ("syntax-brace", "}"),
    ("undefined-symbol", "lda.w undefined_symbol_zq"),
    ("undefined-symbol-data", ".dw undefined_symbol_zq"),
    ("undefined-macro", "undefined_macro_zq(1)"),
    ("bad-mode", "nop #1"),
    ("bad-width", "ldx.l 0x123456"),
    ("branch-range", "bra here_zq + 200\nhere_zq:"),
    ("unmapped", "*=0x700000\n.db 1"),
    ("missing-include", ".include 'no_such_file_zq.s'"),
    ("missing-incbin", ".incbin 'no_such_file_zq.bin'"),
    ("missing-table", ".table 'no_such_file_zq.tbl'"),
    ("missing-ips", ".include_ips 'no_such_file_zq.ips', 0"),
    ("symbol-chain", "zq_a = zq_b"),
    ("bad-mode-inner-outer", "lda (0x10,x),y"),
    ("bad-mode-inner-outer-eor", "eor (0x10,x),y"),
    ("run-off-mapped-area", "*=0x6ffffe\n.db 1, 2, 3, 4"),
    ("run-off-mapped-area-code", "*=0x6ffffd\nlda.l 0x123456\nnop"),
    ("branch-range+128", "lzq1:\nbra lzq1 + 130"),
    ("branch-range-129", "lzq2:\nbra lzq2 - 127"),
    ("undefined-macro-in-if", ".if 1 {\nundefined_macro_zq(1)\n}"),
    ("undefined-const-in-if", ".if 1 {\nzq_c := undefined_symbol_zq\n}"),
    ("undefined-block-in-if", ".if 1 {\n{{undefined_block_zq}}\n} else {\nnop\n}"),
    ("undefined-macro-in-loop", ".for zq_i := 0, 2 {\nundefined_macro_zq(zq_i)\n}"),
    # failures that surface as RuntimeError / struct.error / KeyError inside the passes
    ("branch-to-ram", "bra 0x7e0010"),
    ("branch-from-ram", "@=0x7e0100\nlzq3:\nbne lzq3"),
    ("unmapped-operand-branch", "beq 0x700000"),
    ("value-too-wide", "lda.l 0x1234567"),
    ("negative-long", ".macro zq_m(v) {\nlda.l v\n}\nzq_m(-1)"),
    ("code-as-operand", ".macro zq_c(blk) {\nlda blk\n}\nzq_c({\nnop\n})"),
    ("text-without-table", ".text 'abc'"),
]


def core_class(r):
    if r["status"] == "ok":
        return "ok"
    if r["status"] == "timeout":
        return "timeout"
    if r["exc"] is None:
        return "errorString"
    if r["exc"] == "NodeError":
        return "nodeError"
    if r["exc"] == "RuntimeError":
        return "runtimeError"
    return "otherExc"


def run(ctx):
    tier, seed = ctx["tier"], ctx["seed"]
    rng = core.rng_for(seed, "c14")
    run_ = pipeline.Runner()
    try:
        s = core.Stream("S8-status", "generated valid programs, unchanged and with one definite error (lexical, syntax, undefined symbol / macro, unsupported addressing mode or width, out-of-range branch, unmapped address, missing include / incbin / table / ips file) injected at a statement position, through the four entry points (string API, Program.assemble, Program.assemble_as_patch, x816 subprocess); oracle: success reported <=> the in-memory assembly succeeded, no 'Success !' on failure; the decision logic is compared with the model (`front`); non-trivial = distinct (fault, entry, core class)")
        n = 12 if tier == "quick" else 150
        cases = []
        for i in range(n):
            pr = gen_program.generate(rng, run_.drv, rom="low_rom", features={"incbin": False, "usermap": False})
            lines = pr["src"].rstrip("\n").split("\n")
            cases.append((pr["src"], "none"))
            for j in range(6 if tier == "quick" else 8):
                kind, stmt = FAULTS[(i * 8 + j) % len(FAULTS)]   # every fault kind is used in every run
                # only at top-level positions (outside every block / macro body), so that the statement is certainly reached
                depth, tops = 0, [0]
                for li, l in enumerate(lines):
                    depth += l.count("{") - l.count("}")
                    if depth == 0:
                        tops.append(li + 1)
                pos = rng.choice(tops)
                if j % 3 == 2 and not kind.startswith("missing"):
                    # the erroneous statement sits in an included file (the failure has to come back through .include)
                    inc = f"zq_inc_{i}_{j}.s"
                    with open(run_.tmp + "/" + inc, "w", encoding="utf-8") as fh:
                        fh.write("nop\n" + stmt + "\nnop\n")
                    new = lines[:pos] + [f".include '{inc}'"] + lines[pos:]
                    kind += "@include"
                else:
                    new = lines[:pos] + stmt.split("\n") + lines[pos:]
                cases.append(("\n".join(new) + "\n", kind))
        # a file that is not text: a statement with bytes that are not valid UTF-8 (outside comments and strings) cannot
        # be assembled, through every path that reads files (main file of the file APIs / command line; included file)
        raw_faults = [b"lda #0x1\xff2", b"\xff\xfe\xfa", b".db 0x1\xe92", b"st\xe9 0x10", b".db 1\n\x80\x80\n.db 2"]
        for i in range(3 if tier == "quick" else 20):
            pr = gen_program.generate(rng, run_.drv, rom="low_rom", features={"incbin": False, "usermap": False})
            lines = pr["src"].rstrip("\n").split("\n")
            depth, tops = 0, [0]
            for li, l in enumerate(lines):
                depth += l.count("{") - l.count("}")
                if depth == 0:
                    tops.append(li + 1)
            pos = rng.choice(tops)
            stmt = raw_faults[i % len(raw_faults)]
            if i % 2 == 0:
                data = "\n".join(lines[:pos]).encode() + b"\n" + stmt + b"\n" + "\n".join(lines[pos:]).encode() + b"\n"
                cases.append((data, "not-utf8-main-file"))
            else:
                inc = f"zq_raw_{i}.s"
                with open(run_.tmp + "/" + inc, "wb") as fh:
                    fh.write(b"nop\n" + stmt + b"\nnop\n")
                cases.append(("\n".join(lines[:pos] + [f".include '{inc}'"] + lines[pos:]) + "\n", "not-utf8@include"))
        # a program that declared its own mapping must not change what the next program of the process may address
        for k in range(2 if tier == "quick" else 10):
            lo = rng.randrange(0x70, 0x7a)
            host = f".map identifier=1 bank_range=0x{lo:x},0x{lo + 3:x} addr_range=0x8000,0xffff mask=0x8000\n*=0x{lo + 1:02x}8000\n.db 1, 2\n"
            at = len(cases) * (k + 1) // (3 if tier == "quick" else 11)
            cases[at:at] = [(host, "none"), (f"*=0x{lo + 1:02x}8000\n.db 1\n", "unmapped-after-map-program"),
                            (f"*=0x008000\nnop\n*=0x{lo + 2:02x}9000\nlda #1\n", "unmapped-code-after-map-program")]
        # a program that defined and applied a macro must not make that macro known to the next program of the process
        for k in range(2 if tier == "quick" else 10):
            nm = f"zq_shared_{k}"
            host = f"*=0x008000\n.macro {nm}(v) {{\n.db v\n}}\n{nm}({k + 1})\n"
            at = len(cases) * (k + 1) // (4 if tier == "quick" else 12)
            cases[at:at] = [(host, "none"), (f"*=0x008000\n{nm}({k + 2})\n", "undefined-macro-after-defining-program"),
                            (f"*=0x008000\nnop\n{{\n{nm}(7)\n}}\n", "undefined-macro-in-block-after-defining-program")]
        cli_budget = 40 if tier == "quick" else 600
        for src, kind in cases:
            if isinstance(src, bytes):
                # no in-memory run exists for a file that is not text: the source cannot be assembled
                cls = "otherExc"
                entries = ["assemble", "asPatch"] + (["cli"] if cli_budget > 0 else [])
            else:
                base = impl.assemble(src, "low_rom", cwd=run_.tmp)
                cls = core_class(base)
                if cls == "timeout":
                    continue
                entries = ["stringApi", "assemble", "asPatch"] + (["cli"] if cli_budget > 0 else [])
            model = run_.drv.ask([f"front {e} {cls}" for e in entries])
            for e, m_ in zip(entries, model):
                if e == "stringApi":
                    rep = {"ok": "none", "errorString": "message"}.get(cls, "raised")
                    announced = False
                elif e == "cli":
                    cli_budget -= 1
                    rep, _, announced, err = frontends.cli(src, run_.tmp)
                else:
                    rep, _, announced, _ = frontends.file_api("assemble" if e == "assemble" else "patch", src, run_.tmp)
                s.cases += 1
                s.nontrivial.add((kind, e, cls))
                s.count(f"{e}:{cls}")
                if rep != m_:
                    s.disagree({"entry": e, "fault": kind, "core": cls, "src": src if isinstance(src, str) else src.decode("latin-1")}, m_, rep)
                success = rep == "none" or rep.startswith("status 0")
                inp = {"entry": e, "fault": kind, "src": src if isinstance(src, str) else src.decode("latin-1"), "encoding": "utf-8" if isinstance(src, str) else "raw bytes shown as latin-1"}
                if success != (cls == "ok"):
                    s.violate(inp, "success" if cls == "ok" else "failure reaches the caller", rep,
                              "a failed assembly is reported as success" if success else "a successful assembly is reported as failure")
                elif announced and cls != "ok":
                    s.violate(inp, "no success announcement", rep, "'Success !' is announced for a failed assembly")
                # the fault must make the in-memory assembly fail (otherwise the injection was not an error here)
            if kind != "none" and cls == "ok":
                s.violate({"fault": kind, "src": src if isinstance(src, str) else src.decode("latin-1")}, "the assembly fails", "assembled (None returned)", "a source with a definite error at a reached top-level position is assembled and reported as success")
        s.sample({"fault": cases[1][1], "src": str(cases[1][0][:300])})
        return [s]
    finally:
        run_.close()
