"""Shared body of the twin-based properties C08, C09, C10: generated programs and their metamorphic twins
through the real assembler; whole-pipeline correspondence with the model on the originals."""
from __future__ import annotations

import core
import gen_program
import impl
import pipeline
import twins
from props.layout import raw, stat_key


def outputs(r, exclude=()):
    if r["status"] != "ok":
        return None
    return impl.flatten(r["blocks"]), sorted((k, v) for k, v in r["labels"] if k not in exclude and not k.startswith("zz_unrelated") and not k.startswith("tmp_arg_"))


def twin_stream(run, prop, tier, seed):
    rng = core.rng_for(seed, prop + "-twins")
    names = {"C08": "S4-twins-scoping", "C09": "S4-twins-macro", "C10": "S4-twins-if-for"}
    what = {
        "C08": "generated programs vs twins: (a) a label consistently renamed to a fresh identifier, (b) two labels of different scopes renamed to the same name (sibling reuse) or an inner label renamed to an outer label's name (shadowing) when the inner scope does not mention the outer one, (c) an unrelated definition inserted in some inner scope; flattened writes and all other label values must be equal",
        "C09": "generated programs with macros vs the twin in which every application is replaced by a block that evaluates the arguments at the call site into fresh temporaries, binds the parameters in an inner block and holds the body ({{p}} replaced by the argument block); flattened writes and labels outside applications must be equal",
        "C10": "generated programs vs the twin in which every .if is replaced by the statements of the selected branch and every .for by one block per iteration binding the variable; flattened writes and labels outside loop bodies must be equal",
    }
    s = core.Stream(names[prop], what[prop] + "; non-trivial = distinct (rom, transformation, structure kinds used)")
    n = 300 if tier == "quick" else 2000
    feats = {"C08": {}, "C09": {"macros": True}, "C10": {}}[prop]
    progs = pipeline.gen_batch(rng, run.drv, n, features=feats)
    pairs = []
    for pr in progs:
        st = pr["stmts"]
        variants = []
        if prop == "C10":
            if any(x[0] in ("if", "for") for x in twins.walk(st)):
                variants.append(("expand", twins.expand_if_for(st), twins.loop_local_names(st)))
        elif prop == "C09":
            if any(x[0] == "apply" for x in twins.walk(st)):
                variants.append(("inline", twins.inline_macros(st), twins.loop_local_names(st)))
        else:
            labs = twins.labels_in(st, with_incbin=False)
            local = twins.loop_local_names(st)
            if labs:
                a = rng.choice(labs)
                variants.append(("rename-fresh", twins.rename(st, a, "fresh_" + a), {a, "fresh_" + a} | local))
            # sibling reuse / shadowing: rename b to a when they are defined in different blocks and b's block does not mention a
            cand = shadow_candidates(st)
            if cand:
                a, b = rng.choice(cand)
                variants.append(("rename-reuse", twins.rename(st, b, a), {a, b} | local))
            ins = twins.insert_unrelated(st, rng)
            if ins is not None:
                variants.append(("insert-unrelated", ins, local))
        for kind, tw, excl in variants:
            pairs.append((pr, kind, tw, excl))
    # originals: correspondence with the model; twins: equality on the real assembler
    results = {id(pr): (r, m) for pr, r, m in run.run(progs, trace=False)}
    twin_progs = [dict(pr, src=gen_program.source(tw)) for pr, kind, tw, excl in pairs]
    twin_res = run.run(twin_progs, trace=False)
    seen = set()
    for pr in progs:
        r, m = results[id(pr)]
        s.cases += 1
        s.count("orig:" + stat_key(pr, r))
        run.correspond(s, pr, r, m)
    for (pr, kind, tw, excl), (tp, tr, tm) in zip(pairs, twin_res):
        r, m = results[id(pr)]
        s.cases += 1
        s.count("twin:" + kind)
        s.nontrivial.add((pr["rom"], kind, tuple(sorted(k for k in pr["hist"] if k.startswith(("struct", "macro"))))))
        run.correspond(s, tp, tr, tm)
        o1, o2 = outputs(r, excl), outputs(tr, excl)
        if o1 is None and o2 is None:
            s.count("both-rejected")
            continue
        if o1 is None or o2 is None:
            # a twin may be rejected only when the original is (and vice versa), except for the documented
            # width-inference restriction: an operand of inferred width that names a parameter/temporary bound with `=`
            if kind in ("inline", "expand") and (tr.get("exc") == "NodeError" or r.get("exc") == "NodeError"):
                s.count("no-claim:inferred-width-on-deferred-binding")
                continue
            s.violate({"src": pr["src"], "twin": tp["src"], "rom": pr["rom"], "transformation": kind},
                      "same outcome", (r["status"], r.get("exc"), tr["status"], tr.get("exc")), "a presentation-preserving transformation changes whether the program assembles")
            continue
        if o1[0] != o2[0]:
            i = next((i for i, (a, b) in enumerate(zip(o1[0], o2[0])) if a != b), min(len(o1[0]), len(o2[0])))
            s.violate({"src": pr["src"], "twin": tp["src"], "rom": pr["rom"], "transformation": kind},
                      f"byte #{i}: {o1[0][i] if i < len(o1[0]) else None}", f"{o2[0][i] if i < len(o2[0]) else None}",
                      {"C08": "renaming a scope-local name / adding an unrelated definition changes the output",
                       "C09": "macro application differs from its body inlined with parameters bound at the call site",
                       "C10": ".if / .for output differs from the hand-expanded program"}[prop])
        elif o1[1] != o2[1]:
            d = sorted(set(o1[1]) ^ set(o2[1]))[:4]
            s.violate({"src": pr["src"], "twin": tp["src"], "rom": pr["rom"], "transformation": kind}, "same label values", d,
                      "the transformation changes label values")
    s.sample({"src": progs[0]["src"][:300]})
    if pairs:
        s.sample({"transformation": pairs[0][1], "twin": gen_program.source(pairs[0][2])[:300]})
    return s


def shadow_candidates(stmts):
    """(outer label a, inner label b): b is defined in a block nested in (or sibling of) the block defining a,
    and the block defining b does not mention a"""
    out = []

    def direct(body):
        """labels a block defines in its own scope: its direct ones and those inside .if branches (an .if opens no scope)"""
        ls = []
        for s in body:
            if s[0] == "label":
                ls.append(s[1])
            elif s[0] == "if":
                ls += direct(s[2]) + (direct(s[3]) if s[3] is not None else [])
        return ls

    def through_ifs(body):
        for s in body:
            if s[0] == "if":
                yield from through_ifs(s[2])
                if s[3] is not None:
                    yield from through_ifs(s[3])
            else:
                yield s

    def rec(body, outer_labels):
        here = direct(body)
        body = list(through_ifs(body))
        for s in body:
            if s[0] in ("block", "scope"):
                inner = s[1] if s[0] == "block" else s[2]
                text = gen_program.source(inner)
                inner_labels = direct(inner)
                for a in outer_labels + here:
                    if a not in twins.names_in(text):
                        for b in inner_labels:
                            if s[0] == "block":
                                out.append((a, b))
                rec(inner, outer_labels + here)
        # siblings: labels of two different child blocks
        kids = [s for s in body if s[0] == "block"]
        for i in range(len(kids)):
            for j in range(len(kids)):
                if i != j:
                    la = direct(kids[i][1])
                    lb = direct(kids[j][1])
                    tj = gen_program.source(kids[j][1])
                    ti = gen_program.source(kids[i][1])
                    for a in la:
                        for b in lb:
                            if a not in twins.names_in(tj) and b not in twins.names_in(ti):
                                out.append((a, b))
    rec(stmts, [])
    return out


# ------------------------------------------------------------------------------------------------ directed families
def directed(run, prop, tier, seed):
    rng = core.rng_for(seed, prop + "-directed")
    s = core.Stream("S4-directed-" + prop, {
        "C08": "hand-written scoping families with expected bytes: sibling reuse, shadowing, forward/backward scope.name exports, lookup from macro/loop scopes",
        "C09": "hand-written macro families with expected bytes: arguments naming caller symbols that coincide with parameter names, forward-label arguments, local labels per application, nested and recursive applications, code-block arguments spliced in nested scopes, undefined macro / too few arguments must fail",
        "C10": "hand-written .if/.for families with expected bytes: condition values (zero, non-zero, negative, undefined, with and without else), loop bounds (empty, single, many, from constants and macro parameters), nested loops, labels in bodies"}[prop])
    fam = []
    for k in range(6 if tier == "quick" else 60):
        a, b, c = rng.randrange(1, 120), rng.randrange(1, 120), rng.randrange(2, 5)
        if prop == "C08":
            fam += [
                (f"*=0x008000\n{{\nx:\n.db {a}\n.dw x\n}}\n{{\n.db {b}\nx:\n.dw x\n}}\n", bytes([a, 0x00, 0x80, b, 0x04, 0x80])),
                (f"*=0x008000\nx := {a}\n{{\nx := {b}\n.db x\n{{\n.db x\nx = {c}\n.db x\n}}\n.db x\n}}\n.db x\n", bytes([b, c, c, b, a])),
                (f"*=0x008000\n.dw sc.in, sc.v\n.scope sc {{\nv = {a}\n.db 0\nin:\n}}\n.dw sc.in, sc.v\n", bytes([0x05, 0x80, a, 0, 0, 0x05, 0x80, a, 0])),
                (f"*=0x008000\ntop := {a}\n.macro m() {{\n.db top\n}}\n{{\ntop := {b}\nm()\n}}\nm()\n", bytes([b, a])),
                (f"*=0x008000\nout:\n.for i := 0, {c} {{\nloc:\n.dw loc\n}}\n.dw out\n", b"".join((0x8000 + 2 * i).to_bytes(2, "little") for i in range(c)) + b"\x00\x80"),
                # a later scope of the same name nested in an anonymous block does not replace the top-level scope's exports
                ("*=0x008000\n.scope h {\nstart:\nrts\n}\n{\n.scope h {\nnop\nstart:\nrtl\n}\n}\njsr h.start\n.dw h.start\n", bytes([0x60, 0xEA, 0x6B, 0x20, 0x00, 0x80, 0x00, 0x80])),
                (f"*=0x008000\n.for k := 0, {c} {{\n.scope s {{\nl:\n.db k\n}}\n.dw s.l\n}}\n", b"".join(bytes([i]) + (0x8000 + 3 * i).to_bytes(2, "little") for i in range(c))),
                (f"*=0x008000\n.scope s {{\nl:\n.db 0xEE\n}}\n.for k := 0, {c} {{\n.scope s {{\n.db k\nl:\n}}\n}}\n.dw s.l\n", b"\xee" + bytes(range(c)) + b"\x00\x80"),
                # the loop variable does not leak into the scope that holds the loop
                (f"*=0x008000\nk := 0x55\n{{\n.for k := 0, {c} {{\n.db k\n}}\n.db k\n}}\n.db k\n", bytes(range(c)) + b"\x55\x55"),
                (f"*=0x008000\n.macro lp(k) {{\n.for k := 0, 2 {{\n.db k\n}}\n.db k\n}}\nlp({a})\n", bytes([0, 1, a])),
                # an outer name looked up from inside a block before the block's own definition exists
                ("*=0x008000\ndone:\nrts\n{\njmp done\nnop\ndone:\nrts\n}\n", bytes([0x60, 0x4C, 0x05, 0x80, 0xEA, 0x60])),
                (f"*=0x008000\nv := {a}\n{{\nv = {b}\nlda v\n}}\n", bytes([0xA5, b])),
                (f"*=0x008000\nmode := 1\n{{\n.if mode {{\n.db 0xAA\n}}\nmode = {b}\n.db mode\n}}\n", bytes([0xAA, b])),
                # a call-site name spelled like a parameter of the applied macro
                (f"*=0x008000\nx := {a}\n.macro pair(x, y) {{\n.db x, y\n}}\npair(1, x + 1)\n", bytes([1, a + 1])),
                # an argument that names a label defined later is looked up where the macro is applied: a label of the same
                # name inside the macro body, or a parameter of that name, does not capture it (renaming those changes nothing)
                ("*=0x008000\n.macro entry_zq(target) {\nloop:\n.dw target\n}\nentry_zq(loop)\nnop\nloop:\nrts\n", bytes([0x03, 0x80, 0xEA, 0x60])),
                ("*=0x008000\n.macro entry_zq(target) {\ninner_zq:\n.dw target\n}\nentry_zq(loop)\nnop\nloop:\nrts\n", bytes([0x03, 0x80, 0xEA, 0x60])),
                ("*=0x008000\n.macro m_zq(a, b) {\n.dw a, b\n}\n{\na:\nnop\nb:\nm_zq(b, a)\n}\n", bytes([0xEA, 0x01, 0x80, 0x00, 0x80])),
                # block-valued parameters of the same name in nested applications / a sibling symbol of that name
                (f"*=0x008000\n.macro inner(chunk) {{\n{{{{chunk}}}}\n}}\n.macro outer(chunk) {{\n.db 0xaa\ninner({{\n.db {a}\n}})\n{{{{chunk}}}}\n}}\nouter({{\n.db {b}\n}})\n", bytes([0xAA, a, b])),
                (f"*=0x008000\n.macro w(chunk) {{\n{{{{chunk}}}}\n}}\nw({{\n.db {a}\n}})\n{{\nchunk = {b}\n.db chunk\n}}\n", bytes([a, b])),
                # definitions guarded by a condition belong to the block that holds the .if
                (f"*=0x008000\nx:\n.db {a}\n{{\n.if 1 {{\nx:\n.db {b}\n.dw x\n}}\n}}\n.dw x\n", bytes([a, b, 0x01, 0x80, 0x00, 0x80])),
                (f"*=0x008000\n{{\n.if {a} {{\nx:\n.db {a}\n.dw x\n}}\n}}\n{{\n.if 0 {{\n.db 0xEE\n}} else {{\n.db {b}\nx:\n.dw x\n}}\n}}\n", bytes([a, 0x00, 0x80, b, 0x04, 0x80])),
                (f"*=0x008000\nv := {a}\n{{\n.if v {{\nv := {b}\n.db v\n}}\n}}\n.db v\n{{\nnop\n.if 1 {{\nv = {c}\n}}\n.db v\n}}\n.db v\n", bytes([b, a, 0xEA, c, a])),
                # lookup walks the whole chain of enclosing scopes (macro parameter seen through a loop and a block)
                (f"*=0x008000\n.macro row(wide) {{\n.for k := 0, 2 {{\n{{\n.if wide {{\n.db wide, k\n}} else {{\n.db 0xEE\n}}\n}}\n}}\n}}\nrow({a})\nrow(0)\n", bytes([a, 0, a, 1, 0xEE, 0xEE])),
                (f"*=0x008000\n.scope outer {{\nlim = {a}\n.scope mid {{\n{{\n.db lim\n}}\n}}\n}}\n", bytes([a])),
            ]
        elif prop == "C09":
            # an assembly that fails inside a macro body (an undefined macro applied there, too few arguments in a nested
            # application) leaves nothing behind: the corrected source, assembled next in the same process, expands completely
            fam += [
                (f"*=0x008000\n.macro outer_zq(n) {{\n.db n\nmissing_zq(n)\n}}\nouter_zq({a})\n", None),
                (f"*=0x008000\n.macro missing_zq(n) {{\n.db n + 1\n}}\n.macro outer_zq(n) {{\n.db n\nmissing_zq(n)\n}}\nouter_zq({a})\n", bytes([a, a + 1])),
                (f"*=0x008000\n.macro two_zq(x, y) {{\n.db x, y\n}}\n.macro call_zq(n) {{\ntwo_zq(n)\n}}\ncall_zq({b})\n", None),
                (f"*=0x008000\n.macro two_zq(x, y) {{\n.db x, y\n}}\n.macro call_zq(n) {{\ntwo_zq(n, n)\n}}\ncall_zq({b})\n", bytes([b, b])),
            ]
            # what a macro body does to its scope stays in the application's scope, also for a macro without parameters and
            # without labels: a text table selected in the body is not the call site's table afterwards
            tfiles = {"ta_zq.tbl": "41=A\n42=B\n", "tb_zq.tbl": "61=A\n62=B\n"}
            fam += [
                ("*=0x008000\n.macro useb_zq() {\n.table 'tb_zq.tbl'\n.text 'A'\n}\n.table 'ta_zq.tbl'\nuseb_zq()\n.text 'AB'\n", bytes([0x61, 0x41, 0x42]), tfiles),
                ("*=0x008000\n.macro useb_zq() {\n.if 1 {\n.table 'tb_zq.tbl'\n}\n.text 'B'\n}\n.table 'ta_zq.tbl'\nuseb_zq()\n.text 'A'\nuseb_zq()\n.text 'B'\n", bytes([0x62, 0x41, 0x62, 0x42]), tfiles),
                (f"*=0x008000\n.macro useb_zq() {{\n.table 'tb_zq.tbl'\n.text 'A'\n}}\n.table 'ta_zq.tbl'\n.for k_zq := 0, {c} {{\nuseb_zq()\n.text 'A'\n}}\n.text 'B'\n", bytes([0x61, 0x41] * c + [0x42]), tfiles),
                ("*=0x008000\n.macro useb_zq() {\n.table 'tb_zq.tbl'\n.text 'A'\n}\n.table 'ta_zq.tbl'\n.scope s_zq {\nuseb_zq()\n.text 'B'\n}\n.text 'A'\n", bytes([0x61, 0x42, 0x41]), tfiles),
                (f"*=0x008000\n.macro quiet_zq() {{\n.table 'tb_zq.tbl'\n}}\n.macro loud_zq() {{\nquiet_zq()\n.db {a}\n}}\n.table 'ta_zq.tbl'\nquiet_zq()\n.text 'A'\nloud_zq()\n.text 'B'\n", bytes([0x41, a, 0x42]), tfiles),
            ]
            fam += [
                (f"*=0x008000\n.macro m(a, b) {{\n.db a, b\n}}\na := {a}\nm(1, a)\n", bytes([1, a])),
                # arguments that cannot be evaluated when the macro is applied (they name labels or `=` symbols) and that
                # are spelled like parameters of the applied macro: evaluated at the call site all the same (fix 61f6156)
                ("*=0x008000\n.macro m(a, b) {\n.dw a, b\n}\n{\na:\nnop\nb:\nm(b, a)\n}\n", bytes([0xEA, 0x01, 0x80, 0x00, 0x80])),
                (f"*=0x008000\na = {a}\nb = {b}\n.macro m(a, b) {{\n.db a, b\n}}\nm(b, a)\n", bytes([b, a])),
                ("*=0x008000\n.macro m(a, b) {\n.dw a, b\n}\nm(b, a)\na:\nnop\nb:\n", bytes([0x05, 0x80, 0x04, 0x80, 0xEA])),
                (f"*=0x008000\n.macro inner(x) {{\n.dw x\n}}\n.macro outer(x, y) {{\ninner(y)\ninner(x + {c})\n}}\nouter(y, x)\nx:\nnop\ny:\n",
                 bytes([0x04, 0x80]) + (0x8005 + c).to_bytes(2, "little") + b"\xea"),
                (f"*=0x008000\n.macro m(a, b, c) {{\n.db a\n.dw b, c\n}}\nm({a}, c, b)\nb:\nnop\nc:\n", bytes([a, 0x06, 0x80, 0x05, 0x80, 0xEA])),
                (f"*=0x008000\nx := {a}\n.macro pair(x, y) {{\n.db x, y\n}}\npair(1, x + 1)\n", bytes([1, a + 1])),
                (f"*=0x008000\n.macro two(lo, hi) {{\n.db lo, hi\n}}\n.macro swapped(hi, lo) {{\ntwo(hi, lo)\n}}\nswapped({a}, {b})\n", bytes([a, b])),
                (f"*=0x008000\n.macro e(t) {{\n.dw t\n}}\ne(first)\ne(second)\nfirst:\n.db {a}\nsecond:\n", b"\x04\x80\x05\x80" + bytes([a])),
                (f"*=0x008000\n.macro lp() {{\nhere:\n.dw here\n}}\nlp()\nlp()\n", b"\x00\x80\x02\x80"),
                (f"*=0x008000\n.macro rec(n) {{\n.db n\n.if n {{\nrec(n - 1)\n}}\n}}\nrec({c})\n", bytes(range(c, -1, -1))),
                (f"*=0x008000\n.macro rep(n, code) {{\n.for i := 0, n {{\n{{{{code}}}}\n.db i\n}}\n}}\nrep({c}, {{\n.db {a}\n}})\n", b"".join(bytes([a, i]) for i in range(c))),
                # a code-block argument spliced more than once is expanded at every splice: scopes, conditions, loops, applications inside it
                ("*=0x008000\n.macro twice(code) {\n{{code}}\n{{code}}\n}\ntwice({\n{\nhere:\n.dw here\n}\n})\n", b"\x00\x80\x02\x80"),
                (f"*=0x008000\n.macro t(code) {{\n{{\nsel := 1\n{{{{code}}}}\n}}\n{{\nsel := 0\n{{{{code}}}}\n}}\n}}\nt({{\n.if sel {{\n.db {a}\n}} else {{\n.db {b}\n}}\n}})\n", bytes([a, b])),
                (f"*=0x008000\n.macro rep(n, code) {{\n.for i := 0, n {{\n{{{{code}}}}\n}}\n}}\nrep({c}, {{\n{{\nl:\n.dw l\n}}\n.db i\n}})\n", b"".join((0x8000 + 3 * i).to_bytes(2, "little") + bytes([i]) for i in range(c))),
                (f"*=0x008000\n.macro p(v) {{\n.db v\n}}\n.macro twice(code) {{\n{{{{code}}}}\n.db 0xEE\n{{{{code}}}}\n}}\ntwice({{\np({a})\n.for j := 0, 2 {{\np(j)\n}}\n}})\n.db {b}\n", bytes([a, 0, 1, 0xEE, a, 0, 1, b])),
                (f"*=0x008000\n.macro w(code) {{\n{{{{code}}}}\n}}\n.macro outer(v) {{\nw({{\n.if v {{\n.db v\n}} else {{\n.db {a}\n}}\n}})\n}}\nouter(0)\nouter(1)\nouter({c})\n", bytes([a, 1, c])),
                # a spliced block is expanded in place, in the application's block: its definitions are visible to the body around the splice
                (f"*=0x008000\n.macro wrap(code) {{\n{{{{code}}}}\n.dw inner\n}}\nwrap({{\ninner:\n.db {a}\n}})\n", bytes([a, 0x00, 0x80])),
                (f"*=0x008000\ninner:\n.db 0xEE\n.macro wrap(code) {{\n.dw inner\n{{{{code}}}}\n.db v\n}}\nwrap({{\n.db {a}\ninner:\nv = {b}\n}})\n.dw inner\n", bytes([0xEE, 0x04, 0x80, a, b, 0x00, 0x80])),
                # a value parameter of an inner application named like a code-block parameter of an enclosing one (and vice versa)
                (f"*=0x008000\n.macro emit(value) {{\n.db value\n}}\n.macro wrap(value) {{\n.db 0xAA\n{{{{value}}}}\nemit({a})\n}}\nwrap({{\n.db {b}\n}})\n", bytes([0xAA, b, a])),
                (f"*=0x008000\nblk := {a}\n.macro run(blk) {{\n{{{{blk}}}}\n{{\nblk = {b}\n.db blk\n}}\n}}\nrun({{\n.db 1\n}})\n.db blk\n", bytes([1, b, a])),
                ("*=0x008000\nnot_defined_macro(1)\n", None),
                # an undefined macro fails wherever the application is reached
                (f"*=0x008000\n.db {a}\n.if 1 {{\n.db 1\nnot_defined_macro()\n}} else {{\n.db 2\n}}\n", None),
                (f"*=0x008000\n.macro w(code) {{\n.if 1 {{\n{{{{code}}}}\n}}\n}}\nw({{\nnot_defined_macro({a})\n}})\n", None),
                (f"*=0x008000\n.macro outer(v) {{\n.if v {{\n.for i := 0, 2 {{\nmissing_inner(i)\n}}\n}}\n}}\nouter({a})\n", None),
                (f"*=0x008000\n.if 0 {{\nnot_defined_macro()\n}}\n.db {a}\n", bytes([a])),
                # each parameter is bound to its own argument, whatever the other arguments are (labels are resolved later)
                (f"*=0x008000\n.macro e(t, wide) {{\n.if wide {{\n.dw t\n}} else {{\n.db t & 0xff\n}}\n}}\ne(first, 1)\ne(first, 0)\ne({a}, 1)\nfirst:\n", b"\x05\x80\x05" + bytes([a, 0])),
                (f"*=0x008000\n.macro rec(n, t) {{\n.if n {{\n.dw t + n\nrec(n - 1, t)\n}}\n}}\nrec({c}, base)\nbase:\n", b"".join((0x8000 + 2 * c + i).to_bytes(2, "little") for i in range(c, 0, -1))),
                (f"*=0x008000\n.macro fill(t, n) {{\n.for i := 0, n {{\n.db i\n}}\n.dw t\n}}\nfill(end, {c})\nend:\n", bytes(range(c)) + (0x8000 + c + 2).to_bytes(2, "little")),
                (f"*=0x008000\n.macro f(v, n) {{\n.db v, n\n}}\nn := {c}\nf({a})\n", None),
            ]
        else:
            fam += [
                (f"*=0x008000\n.db {a}\n.if {b} {{\n.db 1\n}} else {{\n.db 2\n.db 3\n}}\n.db {c}\n", bytes([a, 1, c])),
                (f"*=0x008000\n.db {a}\n.if 0 {{\n.db 1\n}} else {{\n.db 2\n.db 3\n}}\n.db {c}\n", bytes([a, 2, 3, c])),
                (f"*=0x008000\n.db {a}\n.if -{b} {{\n.db 1\n}}\n.db {c}\n", bytes([a, 1, c])),
                (f"*=0x008000\n.db {a}\n.if NOT_DEFINED_{k} {{\n.db 1\n}} else {{\n.db 2\n}}\n.if NOT_DEFINED_{k} + 1 {{\n.db 4\n}}\n.db {c}\n", bytes([a, 2, c])),
                (f"*=0x008000\n.for k := {a}, {a + c} {{\n.db k\n}}\n.for k := {a}, {a} {{\n.db 0xEE\n}}\n.for k := {a}, {a - 1} {{\n.db 0xEF\n}}\n", bytes(range(a, a + c))),
                (f"*=0x008000\n.macro fill(from, to) {{\n.for i := from, to {{\n.db i\n}}\n}}\nfill(0, 2)\n.db 0xFF\nfill(5, 8)\n.db 0xEE\n", bytes([0, 1, 0xFF, 5, 6, 7, 0xEE])),
                (f"*=0x008000\nk = 0x42\n.for k := 0, {c} {{\n.db k\n}}\n.db k\n", bytes(range(c)) + b"\x42"),
                # a named scope inside the loop body exports to its own iteration
                (f"*=0x008000\n.for k := 0, {c} {{\n.scope s {{\nl:\n.db k\n}}\n.dw s.l\n}}\n", b"".join(bytes([i]) + (0x8000 + 3 * i).to_bytes(2, "little") for i in range(c))),
                (f"*=0x008000\n.for i := 0, 2 {{\n.for j := 0, {c} {{\n.scope t {{\nv = i + j\n}}\n.db t.v\n}}\n}}\n", bytes(i + j for i in range(2) for j in range(c))),
                # a macro defined in the selected branch only
                (f"*=0x008000\n.if {a} {{\n.macro pick() {{\n.db 0x11\n}}\n}} else {{\n.macro pick() {{\n.db 0x22\n}}\n}}\npick()\n.if 0 {{\n.macro pick() {{\n.db 0x33\n}}\n}}\npick()\n", bytes([0x11, 0x11])),
                # bounds are values: an expression bound is evaluated as a whole
                (f"*=0x008000\n.for k := 1 << 4, 0x10 + {c} {{\n.db k\n}}\n", bytes(range(16, 16 + c))),
                (f"*=0x008000\nbase := 0x{0xA0 + (a & 0xF):x}\n.for k := base & 0xF0, (base & 0xF0) + {c} {{\n.db k\n}}\n.macro rows(from) {{\n.for r := from >> 1, (from >> 1) + 2 {{\n.db r\n}}\n}}\nrows({2 * a})\n", bytes(range(0xA0, 0xA0 + c)) + bytes([a, a + 1])),
                (f"*=0x008000\nn := {a}\n.for k := n - 1, n + 1 {{\n.db k\n}}\nn = 0\n", bytes([a - 1, a])),
                # a condition sees names of every enclosing scope
                (f"*=0x008000\n.macro row(wide) {{\n.for k := 0, 2 {{\n.if wide {{\n.db wide\n}} else {{\n.db 0xEE\n}}\n}}\n}}\nrow({a})\nrow(0)\n", bytes([a, a, 0xEE, 0xEE])),
                (f"*=0x008000\n.scope cfg {{\non := {a}\n{{\n.for k := 0, 2 {{\n.if on {{\n.db k\n}}\n}}\n}}\n}}\n", bytes([0, 1])),
                (f"*=0x008000\n.for i := 0, 2 {{\n.for j := 0, {c} {{\n.db i, j\n}}\n}}\njmp.w done\ndone:\n", b"".join(bytes([i, j]) for i in range(2) for j in range(c)) + b"\x4c" + (0x8000 + 4 * c + 3).to_bytes(2, "little")),
                # a loop body that consists of a spliced code block (with flat statements around it): every iteration
                # expands the block anew, scopes and definitions included
                (f"*=0x008000\n.macro rep_zq(n, code) {{\n.for i := 0, n {{\n{{{{code}}}}\n.db i\n}}\n}}\nrep_zq({c}, {{\n{{\nl:\n.dw l\n}}\n}})\n",
                 b"".join((0x8000 + 3 * i).to_bytes(2, "little") + bytes([i]) for i in range(c))),
                (f"*=0x008000\n.macro rep_zq(n, code) {{\n.for i := 0, n {{\n{{{{code}}}}\n}}\n}}\nrep_zq({c}, {{\nx_zq = i + {a}\n.db x_zq\n}})\n",
                 bytes((i + a) % 256 for i in range(c))),
                (f"*=0x008000\n.macro one_zq(v) {{\n.db v\n}}\n.macro rep_zq(n, code) {{\n.for i := 0, n {{\n.db 0xEE\n{{{{code}}}}\n}}\n}}\nrep_zq({c}, {{\none_zq(i)\n.for j := 0, 2 {{\n.db j\n}}\n}})\n",
                 b"".join(bytes([0xEE, i, 0, 1]) for i in range(c))),
                # the selected branch is assembled exactly as written by hand: what that refuses, the .if refuses too
                # (only an undefined name in the *condition* counts as false)
                (f"*=0x008000\n.db {a}\n.if {b} {{\n.db 1\nno_such_macro_zq()\n}} else {{\n.db 2\n}}\n", None),
                (f"*=0x008000\n.db {a}\n.if {b} {{\n.db 1\nzz_x := undefined_zq + 4\n.db zz_x\n}} else {{\n.db 2\n}}\n", None),
                (f"*=0x008000\n.db {a}\n.if {b} {{\n.for zz_i := 0, undefined_zq {{\n.db 1\n}}\n}} else {{\n.db 2\n}}\n", None),
                (f"*=0x008000\n.db {a}\n.if 0 {{\n.db 1\n}} else {{\n.db 2\nno_such_macro_zq({c})\n}}\n", None),
                (f"*=0x008000\n.db {a}\n.if {b} {{\n.if 1 {{\nzz_y := undefined_zq\n}}\n}}\n.db {c}\n", None),
                # ... and the other branch may hold anything that parses
                (f"*=0x008000\n.db {a}\n.if 0 {{\nno_such_macro_zq()\nzz_x := undefined_zq + 4\n}} else {{\n.db 2\n}}\n.db {c}\n", bytes([a, 2, c])),
            ]
    progs = [raw("low_rom", t[0], meta=t[1], files=(dict(t[2]) if len(t) > 2 else {})) for t in fam]
    for pr, r, m in run.run(progs, trace=False):
        s.cases += 1
        s.nontrivial.add(pr["src"])
        run.correspond(s, pr, r, m)
        data = b"".join(b for _, b in r["blocks"]) if r["status"] == "ok" else None
        if pr["meta"] is None:
            if data is not None:
                s.violate({"src": pr["src"]}, "rejected", data.hex(), "applying an undefined macro / supplying too few arguments does not fail")
        elif data != pr["meta"]:
            s.violate({"src": pr["src"]}, pr["meta"].hex(), data.hex() if data is not None else (r.get("exc"), r.get("error")), "output differs from the hand-expanded expectation")
    s.sample({"src": fam[0][0]})
    if prop == "C08":
        # a top-level constant given on the command line is shadowed by scope-local names like any other
        from props import frontends
        for k in range(3 if tier == "quick" else 12):
            v = rng.randrange(3, 200)
            src = ("*=0x008000\n.for k := 0, 3 {\n.db k\n}\n.macro m(k) {\n.db k\n}\nm(7)\n{\nk = 9\n.db k\n}\n.db k\n")
            want = bytes([0, 1, 2, 7, 9, v])
            rep, data, _, err = frontends.cli(src, run.tmp, fmt="ips", defines=[("k", v)])
            s.cases += 1
            s.count("cli-define-shadowed")
            rec = data[5 + 5:5 + 5 + len(want)] if data and data[:5] == b"PATCH" else None
            if rec != want:
                s.violate({"src": src, "command": f"x816 -f ips -D k={v}"}, want.hex(), rec.hex() if rec else (rep, err[-120:]),
                          "a loop variable / macro parameter / block-local symbol does not shadow the command-line constant of the same name")
    return s


def emit_twice_stream(run, prop, tier, seed):
    """one parse and label resolution, two emissions (the way a tool writes an IPS patch and an SFC image from one Program)"""
    import os
    from a816.program import Program
    rng = core.rng_for(seed, prop + "-emit-twice")
    s = core.Stream("S4-emit-twice", "generated programs (blocks, named scopes, macros, loops whose bodies use the loop variable and body-local labels, names that also exist at the top level) and hand-written loop programs: parse, resolve_labels, emit into a first writer, resolver_reset(), emit into a second writer -- scopes are entered again by replay, so the second emission must write the same blocks as the first; non-trivial = distinct sources")
    srcs = []
    for i in range(30 if tier == "quick" else 300):
        a, n = rng.randrange(1, 200), rng.randrange(2, 5)
        srcs.append(rng.choice([
            f"*=0x008000\nk = 0x77\n.for k := 0, {n} {{\n.db k\n}}\n.db k\n",
            f"*=0x008000\nv := {a}\n.for i := 0, {n} {{\nv = i + 1\nloc:\n.db v\n.dw loc\n}}\n.db v\n",
            f"*=0x008000\n.macro m(x) {{\nhere:\n.db x\n.dw here\n}}\n.for i := 0, {n} {{\nm(i + {a})\n}}\n",
            f"*=0x008000\nloc:\n.for i := 0, {n} {{\n.scope s {{\nloc:\n.db i\n}}\n.dw s.loc, loc\n}}\n.dw loc\n",
        ]))
    gens = []
    for i in range(40 if tier == "quick" else 400):
        pr = gen_program.generate(rng, run.drv, rom="low_rom", features={"incbin": False, "usermap": False})
        if not pr["src"].lstrip().startswith("*="):
            pr["src"] = "*=0x008000\n" + pr["src"]     # resolver_reset() does not reset the run address: start from a `*=`
        gens.append(pr)
    for item in srcs + gens:
        src = item if isinstance(item, str) else item["src"]
        if not isinstance(item, str):
            impl.write_files(run.tmp, item.get("files"), item.get("bins"))
        cwd = os.getcwd()
        os.chdir(run.tmp)
        try:
            with impl.quiet(), core.watchdog(20):
                prog = Program()
                err, nodes = prog.parser.parse(src, "twice.s")
                if err is not None:
                    s.count("rejected-by-parser")
                    continue
                try:
                    prog.resolve_labels(nodes)
                    w1 = impl.CollectWriter()
                    prog.emit(nodes, w1)
                except Exception:  # noqa: BLE001
                    s.count("rejected")
                    continue
                b1 = [(a_, bytes(b_)) for b_, a_ in getattr(w1, "raw", [])] or list(w1.blocks)
                try:
                    prog.resolver_reset()
                    w2 = impl.CollectWriter()
                    prog.emit(nodes, w2)
                    b2 = list(w2.blocks)
                except Exception as e:  # noqa: BLE001
                    b2 = ("raised", type(e).__name__, str(e)[:120])
        except core.Timeout:
            continue
        finally:
            os.chdir(cwd)
        s.cases += 1
        s.nontrivial.add(src)
        s.count("emitted-twice")
        if b2 != list(w1.blocks):
            s.violate({"src": src, "api": "parse; resolve_labels; emit(w1); resolver_reset(); emit(w2)"}, "the blocks of the first emission",
                      str(b2)[:300], "a second emission of the same resolved program writes something else: names of closed scopes (loop iterations, macro applications) no longer resolve as they did")
    s.sample({"src": srcs[0]})
    return s


def relocate_stream(run, prop, tier, seed):
    """a relocatable routine: parsed once, then resolved and emitted at several positions on one Program"""
    from a816.program import Program
    rng = core.rng_for(seed, prop + "-relocate")
    s = core.Stream("S4-relocate", "hand-written routines without `*=` (macro applications whose arguments name labels defined later, named scopes whose exported labels are used outside and before the scope, block-local labels, loops) parsed once; then, for three positions in turn on the same Program: resolver.set_position(p), resolve_labels, set_position(p), emit -- the blocks equal those of a fresh Program assembling `*=p` + the routine: every resolution binds parameters, exports and labels anew; non-trivial = distinct (routine, positions)")
    routines = []
    for i in range(6 if tier == "quick" else 60):
        a, d = rng.randrange(1, 250), rng.randrange(0, 4)
        routines += [
            f".macro put_zq(target, delta) {{\n.dw target & 0xFFFF\n.db delta\njmp.w target + delta\n}}\nput_zq(later_zq, {d})\nnop\nput_zq(later_zq + 2, 0)\nlater_zq:\nrts\nnop\n",
            f"jsr.w sc_zq.entry\n.dw sc_zq.entry, sc_zq.val\n.scope sc_zq {{\nval = {a}\n.db {a}\nentry:\nrts\n}}\n.dw sc_zq.entry\n",
            f"{{\nloc_zq:\n.dw loc_zq\n.db {a}\n}}\n.for k_zq := 0, 3 {{\nit_zq:\n.dw it_zq\n.db k_zq\n}}\nend_zq:\n.dw end_zq\n",
            f".macro wrap_zq(t) {{\n.scope in_zq {{\nhere:\n.dw t, here\n}}\n.dw in_zq.here\n}}\nwrap_zq(tail_zq)\n.db {a}\ntail_zq:\nwrap_zq(tail_zq + 1)\n",
        ]
    for src in routines:
        positions = rng.sample([0x008000, 0x018400, 0x028010, 0x03ff00, 0x0a8123], 3)
        got, want = [], []
        try:
            with impl.quiet(), core.watchdog(30):
                prog = Program()
                err, nodes = prog.parser.parse(src, "routine.s")
                if err is not None:
                    s.count("rejected-by-parser")
                    continue
                for pos in positions:
                    try:
                        prog.resolver.set_position(pos)
                        prog.resolve_labels(nodes)
                        prog.resolver.set_position(pos)
                        w = impl.CollectWriter()
                        prog.emit(nodes, w)
                        got.append(list(w.blocks))
                    except Exception as e:  # noqa: BLE001
                        got.append(("raised", type(e).__name__, str(e)[:100]))
                    w2 = impl.CollectWriter()
                    try:
                        e2 = Program().assemble_string_with_emitter(f"*=0x{pos:06x}\n" + src, "routine.s", w2)
                        want.append(list(w2.blocks) if e2 is None else ("error", e2[:100]))
                    except Exception as e:  # noqa: BLE001
                        want.append(("raised", type(e).__name__, str(e)[:100]))
        except core.Timeout:
            continue
        s.cases += 1
        s.nontrivial.add((src, tuple(positions)))
        s.count("relocated")
        if got != want:
            k = next(i for i, (x, y) in enumerate(zip(got, want)) if x != y)
            s.violate({"src": src, "positions": [hex(p_) for p_ in positions], "api": "parse once; per position: set_position, resolve_labels, set_position, emit"},
                      {"position": hex(positions[k]), "fresh Program": str(want[k])[:300]}, str(got[k])[:300],
                      "a routine resolved and emitted again at another position on the same Program does not equal the fresh assembly at that position (a parameter, an exported scope label or a label keeps the value of an earlier resolution)")
    s.sample({"src": routines[0]})
    return s


def run_prop(prop, ctx):
    run = pipeline.Runner()
    try:
        extra = [emit_twice_stream(run, prop, ctx["tier"], ctx["seed"])] if prop == "C08" else []
        if prop in ("C08", "C09"):
            extra.append(relocate_stream(run, prop, ctx["tier"], ctx["seed"]))
        if prop == "C08":
            from props.layout import c02_program_reuse
            extra.append(c02_program_reuse(run, ctx["tier"], ctx["seed"]))
        return [twin_stream(run, prop, ctx["tier"], ctx["seed"]), directed(run, prop, ctx["tier"], ctx["seed"]),
                pipeline.wild_stream(run, prop, ctx["tier"], ctx["seed"])] + extra + [run.repeat_stream()]
    finally:
        run.close()
