"""C13 — .include_ips reader: real IncludeIpsNode on generated patch files vs model; oracle = Spec.Ips.parse."""
from __future__ import annotations

import os
import shutil

import core
import impl
from props.c11 import parse_blocks


def gen_file(rng, tier):
    """(bytes, description) — mostly well-formed patches, with a malformed share"""
    recs = []
    n = rng.choice([0, 1, 1, 2, 3, 5])
    body = b""
    for _ in range(n):
        off = rng.choice([0, 1, 0x8000, 0xFFFF, 0x10000, 0x01FF00, 0x454F45, 0x454F47, 0xFFFFFF, rng.randrange(1 << 24)])
        kind = rng.random()
        if kind < 0.3:
            run = rng.choice([0, 1, 2, 0x7FFF, 0x8000, 0xFFFF, rng.randrange(1, 300)])
            val = rng.randrange(256)
            body += off.to_bytes(3, "big") + b"\x00\x00" + run.to_bytes(2, "big") + bytes([val])
        else:
            ln = rng.choice([1, 2, 3, 16, 255, 256, 0xFFFF, rng.randrange(1, 600)])
            data = bytes(rng.randrange(256) for _ in range(min(ln, 32))) + bytes([rng.randrange(256)]) * max(0, ln - 32)
            body += off.to_bytes(3, "big") + ln.to_bytes(2, "big") + data
    f = b"PATCH" + body + b"EOF"
    desc = "well-formed"
    r = rng.random()
    if r < 0.12:
        cut = rng.randrange(0, len(f))
        f, desc = f[:cut], "truncated"
    elif r < 0.17:
        f, desc = b"PATCX" + f[5:], "bad-header"
    elif r < 0.22:
        f, desc = f[:-3], "no-eof"
    elif r < 0.27:
        f, desc = f + bytes(rng.randrange(256) for _ in range(rng.randrange(1, 4))), "trailing-bytes"
    return f, desc


def pad_to(rng, size):
    """well-formed patch of exactly `size` bytes (size >= 8+6): plain records"""
    body_len = size - 8
    body = b""
    while body_len - len(body) >= 6:
        room = body_len - len(body) - 5
        ln = min(room, rng.choice([1, 7, 300, 5000, 0xFFFF]))
        if 0 < room - ln < 6:
            ln = room - 6 if room - 6 >= 1 else room
        off = rng.randrange(0x100000)
        body += off.to_bytes(3, "big") + ln.to_bytes(2, "big") + bytes([rng.randrange(256)]) * ln
    if len(body) != body_len:
        return None
    return b"PATCH" + body + b"EOF"


def real_read(path, delta):
    from a816.parse.ast.expression import expr_to_ast
    from a816.parse.nodes import IncludeIpsNode
    from a816.symbols import Resolver
    try:
        with impl.quiet(), core.watchdog(20):
            node = IncludeIpsNode(path, Resolver(), expr_to_ast(str(delta)) if delta is not None else None)
        return "ok", [(a, bytes(d)) for a, d in node.blocks]
    except core.Timeout:
        return "timeout", None
    except Exception as e:  # noqa: BLE001
        return "err", type(e).__name__


def run(ctx):
    tier, seed = ctx["tier"], ctx["seed"]
    drv = core.Driver()
    rng = core.rng_for(seed, "c13")
    tmp = core.tmpdir()
    try:
        s = core.Stream("S8-ipsr", "generated IPS files (plain, run-length, max-length, adjacent records; truncated / bad header / no EOF / trailing bytes; exact file sizes k*8192+{-3..3}) read by the real IncludeIpsNode with signed deltas vs model; oracle: Spec.Ips.parse -> records shifted by delta, malformed -> rejected; non-trivial = distinct (kind, #records, outcome)")
        files = []
        for _ in range(250 if tier == "quick" else 2500):
            files.append(gen_file(rng, tier))
        ks = (1, 2) if tier == "quick" else (1, 2, 3, 8)
        for k in ks:
            for d in range(-3, 4):
                f = pad_to(rng, k * 8192 + d)
                if f:
                    files.append((f, f"size-{k}*8192{d:+d}"))
        deltas = [0, 1, -1, 0x200, -0x200, 0x10000, -0x8000]
        ops_m, ops_s, meta = [], [], []
        for i, (f, desc) in enumerate(files):
            delta = rng.choice(deltas)
            path = os.path.join(tmp, f"p{i}.ips")
            with open(path, "wb") as fh:
                fh.write(f)
            meta.append((path, delta, f, desc))
            ops_m.append(f"ipsr {f.hex() or '-'} {delta}")
            ops_s.append(f"spec.ipsparse {f.hex() or '-'}")
        model = drv.ask(ops_m)
        spec = drv.ask(ops_s)
        for (path, delta, f, desc), m_, sp in zip(meta, model, spec):
            st, val = real_read(path, delta)
            s.cases += 1
            s.count(desc if not desc.startswith("size-") else "size-at-buffer-boundary")
            got = "ok " + (";".join(f"{a}:{d.hex() or '-'}" for a, d in val) or "-") if st == "ok" else st
            mm = m_ if m_.startswith("ok") else "err"
            if got != mm:
                s.disagree({"file": f[:40].hex(), "len": len(f), "kind": desc, "delta": delta}, m_[:100], got[:100])
            inp = {"file_len": len(f), "kind": desc, "delta": delta, "file_head": f[:48].hex()}
            if sp.startswith("some"):
                recs = parse_blocks(sp[5:] if len(sp) > 5 else "-")
                s.nontrivial.add((desc, len(recs), "accepted"))
                exp = [(a + delta, d) for a, d in recs]
                if st != "ok":
                    s.violate(inp, f"{len(exp)} records", (st, val), "a well-formed IPS patch is rejected by .include_ips")
                elif val != exp:
                    bad = next((i for i, (x, y) in enumerate(zip(val, exp)) if x != y), min(len(val), len(exp)))
                    s.violate(inp, f"record {bad}: " + (f"{exp[bad][0]}:{exp[bad][1][:8].hex()} len {len(exp[bad][1])}" if bad < len(exp) else "none"),
                              (f"{val[bad][0]}:{val[bad][1][:8].hex()} len {len(val[bad][1])}" if bad < len(val) else "none"),
                              "included records differ from the patch's records shifted by delta")
            else:
                s.nontrivial.add((desc, 0, "malformed"))
                if st == "ok":
                    s.violate(inp, "rejected", f"{len(val)} blocks accepted", "a malformed IPS file (missing header / truncated record / no EOF) is accepted")
        # the same (unchanged) file read again, with another delta: every read starts from the file's own offsets
        for (path, delta, f, desc), sp in list(zip(meta, spec))[:60 if tier == "quick" else 600]:
            if not sp.startswith("some"):
                continue
            recs = parse_blocks(sp[5:] if len(sp) > 5 else "-")
            for d2 in (rng.choice(deltas), delta, 0):
                st, val = real_read(path, d2)
                s.cases += 1
                s.count("re-read")
                exp = [(a + d2, d) for a, d in recs]
                if st != "ok" or val != exp:
                    s.violate({"file_len": len(f), "kind": desc, "first_delta": delta, "delta": d2, "file_head": f[:48].hex(), "note": "the same file was read before in this process"},
                              [(a, len(d)) for a, d in exp][:4], (st, [(a, len(d)) for a, d in (val if st == "ok" else [])][:4] if st == "ok" else val),
                              "a patch file included again (same process, unchanged file) does not yield its records shifted by that include's delta")
                    break
        s.sample({"file": files[0][0][:40].hex(), "kind": files[0][1], "model": model[0][:80]})

        # the directive inside a program: surroundings unaffected, records handed over in order
        s2 = core.Stream("S8-include-in-program", "programs with `.include_ips 'f', delta` between data statements: own bytes/labels equal those of the program without the directive; the patch's records appear, shifted, in record order")
        for i in range(40 if tier == "quick" else 400):
            f, desc = gen_file(rng, tier)
            sp = drv.ask([f"spec.ipsparse {f.hex() or '-'}"])[0]
            if not sp.startswith("some"):
                continue
            recs = parse_blocks(sp[5:] if len(sp) > 5 else "-")
            delta = rng.choice(deltas)
            with open(os.path.join(tmp, "inc.ips"), "wb") as fh:
                fh.write(f)
            pre = rng.choice(["*=0x008000\n.db 1,2\n", "*=0x018000\nlda #1\n@=0x7e0000\nq:\nnop\n", ".db 9\n",
                              "*=0x008000\nlda #0x12\n@=0x008100\nhere:\njmp.w here\n", "*=0x028000\n.db 5\n@=0x038123\n.dw 0x1234\n"])
            post = rng.choice([".db 3\nl:\n.dw l\n", "nop\nl:\n", "l:\n.dl l\n*=0x028000\n.db 7\n"])
            dtxt = str(delta) if delta >= 0 else f"-{-delta}"
            twice = i % 3 == 0
            delta2 = rng.choice(deltas)
            d2txt = str(delta2) if delta2 >= 0 else f"-{-delta2}"
            second = f".include_ips 'inc.ips', {d2txt}\n" if twice else ""
            with_ = impl.assemble(pre + f".include_ips 'inc.ips', {dtxt}\n" + second + post, cwd=tmp)
            without = impl.assemble(pre + post, cwd=tmp)
            s2.cases += 1
            s2.nontrivial.add((pre, post, len(recs)))
            if with_["status"] != "ok" or without["status"] != "ok":
                if any(a + delta < 0 for a, _ in recs) or (twice and any(a + delta2 < 0 for a, _ in recs)):
                    continue
                s2.violate({"pre": pre, "post": post, "delta": delta}, "assembled", with_["status"], "program with a well-formed .include_ips is rejected")
                continue
            own = impl.flatten(without["blocks"])
            exp_recs = [(a + delta, d) for a, d in recs] + ([(a + delta2, d) for a, d in recs] if twice else [])
            allb = with_["blocks"]
            # the included blocks must appear, in order, as a subsequence; removing them leaves the program's own writes
            rest, j = [], 0
            for blk in allb:
                if j < len(exp_recs) and blk == exp_recs[j]:
                    j += 1
                else:
                    rest.append(blk)
            if j != len(exp_recs):
                s2.violate({"pre": pre, "post": post, "delta": delta, "file_head": f[:32].hex()}, f"{len(exp_recs)} shifted records in order", f"{j} found", "included records missing / out of order / changed")
            elif impl.flatten(rest) != own or with_["labels"] != without["labels"]:
                s2.violate({"pre": pre, "post": post, "delta": delta}, "own output and labels unchanged", "changed", "the surrounding program's output or addresses are affected by .include_ips")
        s2.sample({"example": "*=0x008000 / .db 1,2 / .include_ips 'inc.ips', 16 / .db 3"})
        # through the IPS writer: the included records keep their shifted offsets in the patch, or the assembly fails
        # the directive inside a macro / loop body expanded several times with different deltas: every expansion shifts the
        # records by its own delta
        for i in range(12 if tier == "quick" else 150):
            f, desc = gen_file(rng, tier)
            sp = drv.ask([f"spec.ipsparse {f.hex() or '-'}"])[0]
            if not sp.startswith("some"):
                continue
            recs = parse_blocks(sp[5:] if len(sp) > 5 else "-")
            if not recs:
                continue
            with open(os.path.join(tmp, "mp.ips"), "wb") as fh:
                fh.write(f)
            d1, d2 = rng.choice([0, 0x20, 0x200, 0x1234]), rng.choice([0x40, 0x8000, 0x10, 0x4321])
            if i % 2 == 0:
                src = f"*=0x008000\n.macro patch_at_zq(d) {{\n.include_ips 'mp.ips', d\n}}\n.db 1\npatch_at_zq(0x{d1:x})\n.db 2\npatch_at_zq(0x{d2:x})\n.db 3\n"
                ds = [d1, d2]
            else:
                src = f"*=0x008000\n.db 1\nstep_zq := 0x{d2:x}\n.macro patch_k_zq(k) {{\n.include_ips 'mp.ips', k * step_zq\n}}\npatch_k_zq(1)\npatch_k_zq(2)\n.db 3\n"
                ds = [d2, 2 * d2]
            r = impl.assemble(src, cwd=tmp)
            s2.cases += 1
            s2.count("include-in-repeated-body")
            if r["status"] != "ok":
                s2.violate({"src": src, "file_head": f[:32].hex()}, "assembled", r.get("exc") or r.get("error"), "a program applying a macro with .include_ips twice is rejected")
                continue
            exp_recs = [(a + d, dd) for d in ds for a, dd in recs]
            jj = 0
            for blk in r["blocks"]:
                if jj < len(exp_recs) and blk == exp_recs[jj]:
                    jj += 1
            if jj != len(exp_recs):
                s2.violate({"src": src, "file_head": f[:32].hex(), "deltas": ds}, f"{len(exp_recs)} shifted records in order", f"{jj} found",
                           "an expansion of `.include_ips` does not place the records at their offsets plus that expansion's delta")
        s3 = core.Stream("S8-include-to-ips-file", "programs with `.include_ips 'f', delta` written through the real IPSWriter (with and without copier header), deltas that carry records to the top of / past the 24-bit offset space; oracle: the standard reader (Spec.Ips.parse) finds each record's bytes at offset + delta (+0x200), in order, or the assembly is refused when such an offset cannot be represented; never wrapped to another offset")
        import io
        from a816.program import Program
        from a816.writers import IPSWriter
        for i in range(30 if tier == "quick" else 300):
            nrec = rng.randrange(1, 4)
            body, recs = b"", []
            for _ in range(nrec):
                off = rng.choice([0x8000, 0xFFFFF0, 0xFFFE00, 0xFFFFFF, 0xFF0000, rng.randrange(1 << 24), rng.randrange(1 << 23), rng.randrange(1 << 20)])
                ln = rng.randrange(1, 40)
                if rng.random() < 0.3:
                    v = rng.randrange(256)
                    body += off.to_bytes(3, "big") + b"\x00\x00" + ln.to_bytes(2, "big") + bytes([v])
                    recs.append((off, bytes([v]) * ln))
                else:
                    d = bytes(rng.randrange(256) for _ in range(ln))
                    body += off.to_bytes(3, "big") + ln.to_bytes(2, "big") + d
                    recs.append((off, d))
            if i % 3 == 0:
                # records that touch and overlap: A, B over the bytes after A's end, C starting exactly at A's end
                x = rng.randrange(0x200, 0x8000)
                la = rng.randrange(1, 6)
                recs = [(x, bytes(rng.randrange(256) for _ in range(la))), (x + la - rng.randrange(0, 2), bytes(rng.randrange(256) for _ in range(4))),
                        (x + la, bytes(rng.randrange(256) for _ in range(2)))]
                if i % 6 == 3:
                    # ... and a later record that starts *below* an earlier one and runs into it (a fill, then a fix-up a
                    # few bytes lower): records are applied in file order, the later one wins where they overlap
                    fill = bytes([rng.randrange(256)]) * rng.randrange(6, 12)
                    recs = [(x, fill), (x - rng.randrange(1, 4), bytes(rng.randrange(1, 256) for _ in range(5))), (x + 1, bytes([rng.randrange(256)]))]
                body = b"".join(a.to_bytes(3, "big") + len(d).to_bytes(2, "big") + d for a, d in recs)
            with open(os.path.join(tmp, "top.ips"), "wb") as fh:
                fh.write(b"PATCH" + body + b"EOF")
            delta = rng.choice([0, 0x10, 0x20, 0x200, 0x1000, 0x10000, 0x100000, 0x1000000, -0x10, (1 << 24) - 0x8000, 0xFFFF0000])
            if i % 3 == 0:
                delta = rng.choice([0, 4, 0x200])
            copier = rng.random() < 0.4
            src = f"*=0x008000\n.db 1,2,3\n.include_ips 'top.ips', {delta if delta >= 0 else '-' + str(-delta)}\n.db 4\n"
            if i % 4 == 1 and delta >= 0:
                # the delta names a constant that is assigned again after the directive (and, every other time, shadowed
                # later in the enclosing block): the directive uses the value in force where it stands
                if i % 8 == 1:
                    src = f"*=0x008000\ndz_zq := {delta}\n.db 1,2,3\n.include_ips 'top.ips', dz_zq\ndz_zq := {delta + 0x40}\n.db 4\n"
                else:
                    src = f"*=0x008000\ndz_zq := {delta}\n{{\n.db 1,2,3\n.include_ips 'top.ips', dz_zq\ndz_zq := {delta + 0x80}\n.db 4\n}}\n"
            f = io.BytesIO()
            old_cwd = os.getcwd()
            os.chdir(tmp)
            try:
                with impl.quiet(), core.watchdog(20):
                    p_ = Program()
                    w = IPSWriter(f, copier)
                    w.begin()
                    err = p_.assemble_string_with_emitter(src, "main.s", w)
                    w.end()
                st = "ok" if err is None else "rejected"
            except core.Timeout:
                st = "timeout"
            except Exception as e:  # noqa: BLE001
                st = "rejected"
            finally:
                os.chdir(old_cwd)
            s3.cases += 1
            shift = 0x200 if copier else 0
            exp = [(a + delta + shift, d) for a, d in recs]
            unrep = any(a < 0 or a >= (1 << 24) or a == 0x454F46 for a, _ in exp)
            s3.nontrivial.add((delta, copier, unrep, st))
            s3.count("unrepresentable" if unrep else "representable")
            inp = {"src": src, "copier_header": copier, "patch_records": [(hex(a), len(d)) for a, d in recs], "delta": delta}
            if unrep:
                if st == "ok":
                    sp = drv.ask([f"spec.ipsparse {f.getvalue().hex()}"])[0]
                    s3.violate(inp, "refused (offset + delta is not a 24-bit IPS offset)", "patch written: " + sp[:120], "an included record carried past the IPS offset space is written at another offset instead of refused")
                continue
            if st != "ok":
                s3.violate(inp, "assembled", st, "a program including a well-formed patch at representable offsets is rejected")
                continue
            sp = drv.ask([f"spec.ipsparse {f.getvalue().hex()}"])[0]
            got = parse_blocks(sp[5:] if sp.startswith("some") and len(sp) > 5 else "-")
            j = 0
            for blk in got:
                if j < len(exp) and blk == exp[j]:
                    j += 1
            from props.c11 import apply as _apply
            want_img = _apply([(0x0 + shift, b"\x01\x02\x03")] + exp + [(0x3 + shift, b"\x04")])
            if j != len(exp) and _apply(got) != want_img:
                s3.violate(inp, [(hex(a), d[:4].hex()) for a, d in exp], [(hex(a), d[:4].hex()) for a, d in got], "the patch file does not hold the included records at offset + delta, in order")
            elif _apply(got) != want_img:
                s3.violate(inp, "image = program bytes, then each included record in order", [(hex(a), d[:4].hex()) for a, d in got], "applying the written patch does not give each included record's bytes at its offset, in record order (a later record must win where records overlap)")
        s3.sample({"example": ".include_ips 'top.ips', 0x20 with a record at 0xFFFFF0"})
        return [s, s2, s3]
    finally:
        shutil.rmtree(tmp, ignore_errors=True)
