"""C06 — expressions: correspondence of eval_expression with the model, Spec oracle on the real evaluator
in every context, classification tie (real parser tokens == printout of the tree)."""
from __future__ import annotations

import itertools

import core
import impl

BOPS = ["*", "+", "-", "<<", ">>", "&", "|"]
LEVEL = {"*": 2, "+": 3, "-": 3, "<<": 4, ">>": 4, "&": 5, "|": 6}
MNEMONIC_SAFE_NAMES = ["va", "vb", "zed", "k9", "sym_1", "sc.x", "Q"]


# ------------------------------------------------------------------ trees (Spec side)
def lit(rng, v=None):
    if v is None:
        v = rng.choice([0, 1, 2, 3, 5, 7, 13, 0xFF, 0x100, 0xFFFF, 0x10000, 0xFFFFFF, 0x1000000, 0xFFFFFFFF, rng.randrange(1 << 34), rng.randrange(300)])
    base = rng.choice(["dec", "hex", "bin"])
    if base == "dec":
        return ("num", "dec", str(v))
    if base == "hex":
        s = "%x" % v
        s = "".join(c.upper() if rng.random() < 0.5 else c for c in s)
        # zero-padded spellings (0x00ff, 0x000080): the value, and the width `~` complements in, come from the value alone
        if rng.random() < 0.3:
            s = s.rjust(rng.choice([2, 4, 6, 8]), "0")
        return ("num", "hex", s)
    b = bin(v)[2:]
    if rng.random() < 0.3:
        b = b.rjust(rng.choice([8, 16, 24]), "0")
    return ("num", "bin", b)


def level(t):
    k = t[0]
    return 0 if k in ("num", "var", "paren") else 1 if k == "un" else LEVEL[t[1]]


def gen_tree(rng, depth, env, ops, unops):
    """random tree; parentheses are inserted exactly where the conventional reading needs them (plus some extra)"""
    if depth == 0 or rng.random() < 0.2:
        if env and rng.random() < 0.3:
            return ("var", rng.choice(list(env)))
        return lit(rng)
    r = rng.random()
    if r < 0.2 and unops:
        e = gen_tree(rng, depth - 1, env, ops, unops)
        if level(e) > 1 or rng.random() < 0.15:
            e = ("paren", e)
        return ("un", rng.choice(unops), e)
    o = rng.choice(ops)
    l = gen_tree(rng, depth - 1, env, ops, unops)
    rr = gen_tree(rng, depth - 1, env, ops, unops)
    if o in ("<<", ">>"):
        rr = lit(rng, rng.randrange(0, 9))
    if level(l) > LEVEL[o] or rng.random() < 0.1:
        l = ("paren", l)
    if level(rr) >= LEVEL[o] or rng.random() < 0.1:
        rr = ("paren", rr)
    return ("bin", o, l, rr)


def prefix(t):
    k = t[0]
    if k == "num":
        return [f"num:{t[1]}:{t[2]}"]
    if k == "var":
        return [f"var:{t[1]}"]
    if k == "paren":
        return ["paren"] + prefix(t[1])
    if k == "un":
        return [f"un:{t[1]}"] + prefix(t[2])
    return [f"bin:{t[1]}"] + prefix(t[2]) + prefix(t[3])


def render(t, rng, spacing=True):
    sp = (lambda: " " * rng.choice([0, 0, 1, 1, 2])) if spacing else (lambda: "")
    k = t[0]
    if k == "num":
        return {"dec": "", "hex": "0x", "bin": "0b"}[t[1]] + t[2]
    if k == "var":
        return t[1]
    if k == "paren":
        return "(" + sp() + render(t[1], rng, spacing) + sp() + ")"
    if k == "un":
        return t[1] + sp() + render(t[2], rng, spacing)
    return render(t[2], rng, spacing) + sp() + t[1] + sp() + render(t[3], rng, spacing)


def starts_with_paren(t):
    k = t[0]
    if k == "paren":
        return True
    if k == "bin":
        return starts_with_paren(t[2])
    return False


# ------------------------------------------------------------------ real code
def real_tokens(ast):
    from a816.parse.ast.nodes import BinOp, Parenthesis, Term, UnaryOp
    from a816.parse.tokens import TokenType
    out = []
    for n in ast.tokens:
        if isinstance(n, Term):
            out.append(("N:" if n.token.type == TokenType.NUMBER else "I:" if n.token.type == TokenType.IDENTIFIER else "O:") + n.token.value)
        elif isinstance(n, BinOp):
            out.append("B:" + n.token.value)
        elif isinstance(n, UnaryOp):
            out.append("U:" + n.token.value)
        elif isinstance(n, Parenthesis):
            out.append("(" if n.token.type == TokenType.LPAREN else ")")
        else:
            out.append("?")
    return out


def mk_resolver(env):
    from a816.symbols import Resolver
    r = Resolver()
    for k, v in env.items():
        if "." in k:
            continue
        r.current_scope.add_symbol(k, v)
    for k, v in env.items():
        if "." in k:
            r.current_scope.symbols[k] = v  # what a named-scope export leaves in the parent
    return r


def real_eval_ast(ast, env):
    from a816.parse.ast.expression import eval_expression
    try:
        with impl.quiet(), core.watchdog(10):
            return f"ok {eval_expression(ast, mk_resolver(env))}"
    except core.Timeout:
        return "timeout"
    except Exception as e:  # noqa: BLE001
        n = type(e).__name__
        return "err " + {"error": "struct.error"}.get(n, n)


def build_ast(toks):
    from a816.parse.ast.nodes import BinOp, ExpressionAstNode, Parenthesis, Term, UnaryOp
    from a816.parse.tokens import Token, TokenType
    nodes = []
    for w in toks:
        if w == "(":
            nodes.append(Parenthesis(Token(TokenType.LPAREN, "(")))
        elif w == ")":
            nodes.append(Parenthesis(Token(TokenType.RPAREN, ")")))
        elif w[:2] == "N:":
            nodes.append(Term(Token(TokenType.NUMBER, w[2:])))
        elif w[:2] == "I:":
            nodes.append(Term(Token(TokenType.IDENTIFIER, w[2:])))
        elif w[:2] == "O:":
            nodes.append(Term(Token(TokenType.BOOLEAN, w[2:])))
        elif w[:2] == "B:":
            nodes.append(BinOp(Token(TokenType.OPERATOR, w[2:])))
        elif w[:2] == "U:":
            nodes.append(UnaryOp(Token(TokenType.OPERATOR, w[2:])))
    return ExpressionAstNode(nodes)


def env_desc(env):
    return ",".join(f"{k}={v}" for k, v in env.items()) or "-"


def in_context(ctx, text, env):
    """value of the expression text observed through one program context; returns ('ok', value, modulus) or ('rej',)"""
    pre = "".join(f"{k} := {v}\n" for k, v in env.items() if "." not in k)
    if any("." in k for k in env):
        names = [k for k in env if "." in k]
        pre += "".join(f".scope {k.split('.')[0]} {{\n{k.split('.')[1]} := {env[k]}\n}}\n" for k in names)
    if ctx == "assign":
        src = pre + f"zz := {text}\n"
    elif ctx == "symbol":
        src = pre + f"zz = {text}\n"
    elif ctx == "dl":
        src = pre + f".dl {text}\n"
    elif ctx == "operand":
        src = pre + f"lda.w #{text}\n"
    elif ctx == "operand-long":
        src = pre + f"lda.l {text}\n"
    elif ctx == "operand-plain":
        src = pre + f"lda {text}\n"
    elif ctx == "operand-indexed":
        src = pre + f"lda {text},x\n"
    elif ctx == "macro":
        src = pre + f".macro mm(pp) {{\n.dl pp\n}}\nmm({text})\n"
    elif ctx == "if":
        src = pre + f".if {text} {{\n.db 1\n}} else {{\n.db 2\n}}\n"
    elif ctx == "for":
        src = pre + f".for kk := {text}, ({text}) + 1 {{\n.dl kk\n}}\n"
    r = impl.assemble(src)
    if r["status"] != "ok":
        return ("rej", r.get("exc") or "error")
    data = b"".join(b for _, b in r["blocks"])
    if ctx in ("assign", "symbol"):
        # read the symbol back through a second assembly-independent route: the resolver is not returned, so re-run
        from a816.program import Program
        w = impl.CollectWriter()
        with impl.quiet():
            p = Program()
            p.assemble_string_with_emitter(src, "main.s", w)
        return ("ok", p.resolver.current_scope.symbols.get("zz"), None)
    if ctx in ("dl", "macro", "for"):
        return ("ok", int.from_bytes(data[:3], "little"), 1 << 24)
    if ctx == "operand":
        return ("ok", int.from_bytes(data[1:3], "little"), 1 << 16)
    if ctx == "operand-long":
        return ("ok", int.from_bytes(data[1:4], "little"), 1 << 24)
    if ctx in ("operand-plain", "operand-indexed"):
        # inferred width: opcode + 1..3 operand bytes; the value is read back from exactly those bytes
        return ("ok", int.from_bytes(data[1:], "little"), None)
    if ctx == "if":
        return ("ok", 1 if data == b"\x01" else 0, "bool")


DIRECTIVE_OPS = ["*", "+", "-", "<<", ">>", "&"]


def run(ctx):
    tier, seed = ctx["tier"], ctx["seed"]
    drv = core.Driver()
    rng = core.rng_for(seed, "c06")
    from a816.parse.ast.expression import expr_to_ast

    s1 = core.Stream("S3-trees", "random and systematic (all operator pairs/triples, prefix operators in every position) well-formed trees rendered with random spacing, lexed+parsed by the real code (operand lexer), evaluated by the real eval_expression; compared with the model on the real token list, with Spec.eval of the tree (oracle), and the token list with the tree's printout; non-trivial = distinct operator skeletons")
    cases = []
    env = {"va": 5, "vb": -3, "zed": 0x1234, "sc.x": 77}
    ops3 = BOPS
    nums = [13, 5, 3, 2]
    for a, b in itertools.product(ops3, ops3):
        t = ("bin", b, ("bin", a, lit(rng, 13), lit(rng, 5)), lit(rng, 3)) if LEVEL[a] <= LEVEL[b] else None
        # textual form x a y b z, tree chosen by the conventional reading
        x, y, z = lit(rng, 13), lit(rng, 5), lit(rng, 3)
        if LEVEL[a] <= LEVEL[b]:
            t = ("bin", b, ("bin", a, x, y), z)
        else:
            t = ("bin", a, x, ("bin", b, y, z))
        cases.append(t)
        for u in ("-", "~"):
            cases.append(("bin", b, ("bin", a, ("un", u, x), y), z) if LEVEL[a] <= LEVEL[b] else ("bin", a, ("un", u, x), ("bin", b, y, z)))
            cases.append(("bin", b, ("bin", a, x, ("un", u, y)), z) if LEVEL[a] <= LEVEL[b] else ("bin", a, x, ("bin", b, ("un", u, y), z)))
            cases.append(("bin", a, x, ("un", u, ("un", "-" if u == "~" else "~", y))))
    # groups whose first and last tokens are parentheses that do not match each other, next to a tighter operator
    for a, b in itertools.product(ops3, ops3):
        inner = ("bin", a, ("paren", ("bin", "+", lit(rng, 1), lit(rng, 2))), ("paren", ("bin", "+", lit(rng, 3), lit(rng, 4))))
        cases.append(("bin", b, lit(rng, 7), ("paren", inner)))
        cases.append(("bin", b, ("paren", inner), lit(rng, 3)))
        cases.append(("bin", b, lit(rng, 0x100), ("paren", ("bin", a, ("paren", ("var", "va")), ("paren", ("var", "vb"))))))
        cases.append(("paren", ("paren", inner)))
    if tier == "thorough":
        for a, b, c in itertools.product(ops3, ops3, ops3):
            w, x, y, z = lit(rng, 13), lit(rng, 5), lit(rng, 3), lit(rng, 2)
            # left-to-right fold with conventional precedence via a tiny precedence climber
            toks = [w, a, x, b, y, c, z]
            cases.append(climb(toks))
    for _ in range(1500 if tier == "quick" else 20000):
        cases.append(gen_tree(rng, rng.randrange(1, 7), env, BOPS, ["-", "~"]))
    texts = [render(t, rng) for t in cases]
    spec = drv.ask([f"spec.eval {env_desc({k: v for k, v in env.items()})} " + " ".join(prefix(t)) for t in cases])
    prints = drv.ask(["spec.print " + " ".join(prefix(t)) for t in cases])
    real_vals, ops_model = [], []
    toks_list = []
    for t, text in zip(cases, texts):
        try:
            with impl.quiet(), core.watchdog(10):
                ast = expr_to_ast(text)
            toks = real_tokens(ast)
            real_vals.append(real_eval_ast(ast, env))
        except core.Timeout:
            toks, ast = None, None
            real_vals.append("timeout")
        except Exception as e:  # noqa: BLE001
            toks = None
            real_vals.append("err parse:" + type(e).__name__)
        toks_list.append(toks)
        ops_model.append("evalt " + env_desc(env) + " " + " ".join(toks) if toks else "evalt - N:0")
    model = drv.ask(ops_model, soft_timeout=40)
    for t, text, sp, pr, rv, toks, m_ in zip(cases, texts, spec, prints, real_vals, toks_list, model):
        s1.cases += 1
        s1.nontrivial.add(skeleton(t))
        s1.count("depth-%d" % depth(t))
        w = sp.split()
        if toks is not None and rv != m_:
            s1.disagree({"text": text, "tokens": toks}, m_, rv)
        if w[-1] == "wf":
            if toks is None or " ".join(toks) != pr:
                s1.violate({"text": text}, pr, toks, "the token list the parser builds is not the conventional reading of the text (classification)")
            if w[0] == "some":
                s1.count("value-defined")
                if rv != f"ok {w[1]}":
                    s1.violate({"text": text, "env": env}, f"ok {w[1]}", rv, "value differs from the conventional value of the expression")
            else:
                s1.count("value-undefined")
        else:
            s1.count("not-wf")
    s1.sample({"text": texts[0], "spec": spec[0], "real": real_vals[0]})
    s1.sample({"text": texts[-1], "spec": spec[-1], "real": real_vals[-1]})

    # --------------------------------------------------------------- contexts
    s2 = core.Stream("S3-contexts", "the same expression text through :=, =, .dl, lda.w #, macro argument, .if, .for bound (operators each context can lex), compared with Spec.eval (oracle) modulo the field width; non-trivial = distinct (context, operator set)")
    ctxs = ["assign", "symbol", "dl", "operand", "macro", "if", "for", "operand-long", "operand-plain", "operand-indexed"]
    n2 = 300 if tier == "quick" else 3000
    for i in range(n2):
        c = ctxs[i % len(ctxs)]
        ops = BOPS if c.startswith("operand") else DIRECTIVE_OPS
        unops = ["-", "~"] if c.startswith("operand") else ["-"]
        t = gen_tree(rng, rng.randrange(1, 5), {"va": 5, "vb": 3, "zed": 0x1234} if c != "for" else {"va": 5}, ops, unops)
        if c == "macro":
            t = strip_outer_for_macro(t)
        text = render(t, rng)
        if c in ("operand-long", "operand-plain", "operand-indexed"):
            # a leading parenthesised group followed by an operator is still a plain operand; a text that is one
            # parenthesised group as a whole is the indirect form and is left out
            if i % 3 == 0 and not text.lstrip().startswith("("):
                t = ("bin", rng.choice(["|", "+", "*", "&"]), ("paren", t), lit(rng, rng.randrange(1, 9)))
                text = render(t, rng)
            if whole_group(text):
                continue
        e2 = {"va": 5, "vb": 3, "zed": 0x1234}
        sp = drv.ask([f"spec.eval {env_desc(e2)} " + " ".join(prefix(t))])[0].split()
        got = in_context(c, text, e2)
        s2.cases += 1
        s2.nontrivial.add((c, skeleton(t)))
        s2.count(c)
        if sp[0] != "some" or sp[-1] != "wf":
            continue
        v = int(sp[1])
        if c == "for" and not (0 <= v < (1 << 23)):
            continue
        if got[0] != "ok":
            if c in ("dl", "macro") or (c == "operand"):
                pass
            # rejection is a violation only where nothing else can explain it: := / = accept every integer
            if c in ("assign", "symbol", "if") or (c in ("operand-plain", "operand-indexed", "operand-long") and 0 <= v < (1 << 24)):
                s2.violate({"context": c, "text": text}, v, got, "expression with a defined conventional value is rejected in this context")
            continue
        if c in ("operand-plain", "operand-indexed") and not 0 <= v < (1 << 24):
            continue
        mod = got[2]
        exp = (1 if v != 0 else 0) if mod == "bool" else v if mod is None else v % mod
        if got[1] != exp:
            s2.violate({"context": c, "text": text}, exp, got[1], "value in this context differs from the conventional value")
    s2.sample({"contexts": ctxs})

    # --------------------------------------------------------------- arbitrary token lists (model vs real, exact exception class)
    s3 = core.Stream("S3-tokens", "arbitrary (mostly malformed) token lists fed to the real eval_expression as ExprNode objects vs the model: same value or same exception class; non-trivial = distinct outcome classes x lengths")
    alphabet = ["N:1", "N:2", "N:7", "N:0x1F", "N:0b101", "N:0x", "N:08", "I:va", "I:nope", "I:blk", "O:True", "(", ")",
                "B:+", "B:-", "B:*", "B:/", "B:&", "B:|", "B:<<", "B:>>", "B:==", "B:~", "U:-", "U:~", "U:+"]
    lists = []
    if tier == "thorough":
        for n in (1, 2, 3):
            lists += [list(x) for x in itertools.product(alphabet, repeat=n)]
    else:
        for n in (1, 2):
            lists += [list(x) for x in itertools.product(alphabet, repeat=n)]
    for _ in range(3000 if tier == "quick" else 30000):
        lists.append([rng.choice(alphabet) for _ in range(rng.randrange(1, 9))])
    env3 = {"va": 5}
    # neither side is asked to build astronomically large integers: token lists in which a shift count could
    # exceed 4096 are dropped (checked by a guarded evaluation of the real shunting-yard output)
    lists = [l for l in lists if not huge_shift(l)]
    model = drv.ask(["evalt va=5,blk=! " + " ".join(l) for l in lists], soft_timeout=40)
    for l, m_ in zip(lists, model):
        from a816.parse.ast.nodes import BlockAstNode
        from a816.parse.ast.expression import eval_expression
        try:
            r = mk_resolver(env3)
            r.current_scope.code_symbols["blk"] = BlockAstNode([], None)
            with impl.quiet():
                rv = f"ok {eval_expression(build_ast(l), r)}"
        except Exception as e:  # noqa: BLE001
            rv = "err " + type(e).__name__
        s3.cases += 1
        s3.nontrivial.add((rv.split()[0] + (rv.split()[1] if rv.startswith("err") else ""), len(l)))
        s3.count(rv if rv.startswith("err") else "ok")
        if rv != m_:
            s3.disagree({"tokens": l}, m_, rv)
    s3.sample({"tokens": lists[100], "model": model[100]})

    # --------------------------------------------------------------- Python int semantics (S0 part)
    s4 = core.Stream("S0-pyint", "Python & | ~ bit_length semantics on boundary/negative/random ints vs the definitions used by model and Spec")
    vals = [0, 1, -1, 2, -2, 255, 256, -255, -256, 65535, 65536, -65536, 2**32 - 1, 2**32, -(2**32), 2**40 + 12345]
    vals += [rng.randrange(-(1 << 36), 1 << 36) for _ in range(200)]
    pairs = [(a, b) for a in vals[:16] for b in vals[:16]] + [(rng.choice(vals), rng.choice(vals)) for _ in range(500)]
    ands = drv.ask([f"land {a} {b}" for a, b in pairs])
    ors = drv.ask([f"lor {a} {b}" for a, b in pairs])
    for (a, b), x, y in zip(pairs, ands, ors):
        s4.cases += 2
        if str(a & b) != x:
            s4.disagree({"op": "&", "a": a, "b": b}, x, a & b)
        if str(a | b) != y:
            s4.disagree({"op": "|", "a": a, "b": b}, y, a | b)
    import ctypes
    inv = drv.ask([f"invert {v}" for v in vals])
    for v, x in zip(vals, inv):
        bl = v.bit_length()
        exp = f"ok {ctypes.c_uint8(~v).value}" if bl <= 8 else f"ok {ctypes.c_uint16(~v).value}" if bl <= 16 else f"ok {ctypes.c_uint32(~v).value}" if bl <= 32 else "err"
        s4.cases += 1
        s4.nontrivial.add(("inv", bl))
        if exp != x:
            s4.disagree({"op": "~", "v": v}, x, exp)
    s4.sample({"pair": pairs[3], "and": ands[3]})
    # --------------------------------------------------------------- identifiers denote their symbol's value
    import pipeline
    from props.layout import raw
    s5 = core.Stream("S3-names", "an identifier in an unsuffixed operand and in a data directive side by side, where the name is a loop variable / inner `=` symbol / macro parameter that shadows an outer constant of the same width class: both must show the value of the innermost definition (hand-derived expected bytes) and agree with the model; non-trivial = distinct (family, values)")
    fam = []
    for k in range(12 if tier == "quick" else 200):
        n = rng.choice(["i", "x", "val", "w"])
        wide = rng.random() < 0.4
        lo_, hi_ = (0x100, 0xFFF0) if wide else (0, 0xF0)
        a, b = rng.randrange(lo_, hi_), rng.randrange(lo_, hi_)
        cnt = rng.randrange(1, 4)
        d, op = (".dw", lambda v: bytes([0xA9, v & 0xFF, v >> 8, v & 0xFF, v >> 8])) if wide else (".db", lambda v: bytes([0xA9, v, v]))
        tail = (lambda v: bytes([v & 0xFF, v >> 8])) if wide else (lambda v: bytes([v]))
        fam.append((f"*=0x008000\n{n} := {a}\n.for {n} := {b}, {b + cnt} {{\nlda #{n}\n{d} {n}\n}}\n{d} {n}\n",
                    b"".join(op(v) for v in range(b, b + cnt)) + tail(a), "loop-variable"))
        fam.append((f"*=0x008000\n{n} := {a}\n{{\n{n} = {b}\nlda #{n}\n{d} {n}\n}}\n{d} {n}\n", op(b) + tail(a), "inner-symbol"))
        fam.append((f"*=0x008000\n{n} := {a}\n.macro mm({n}) {{\nlda #{n}\n{d} {n}\n}}\nmm({b})\n{d} {n}\n", op(b) + tail(a), "macro-parameter"))
        fam.append((f"*=0x008000\n{n} := {a}\n.scope q {{\n{n} = {b}\nlda #{n}\n}}\n{d} q.{n}\nlda #{n}\n", op(b)[:-len(tail(b))] + tail(b) + op(a)[:-len(tail(a))], "named-scope-symbol"))
    run_ = pipeline.Runner(drv)
    try:
        progs = [raw("low_rom", src, meta=(exp, kind)) for src, exp, kind in fam]
        for pr, r, m in run_.run(progs, trace=False):
            exp, kind = pr["meta"]
            s5.cases += 1
            s5.nontrivial.add((kind, pr["src"]))
            s5.count(kind)
            run_.correspond(s5, pr, r, m)
            data = b"".join(b for _, b in r["blocks"]) if r["status"] == "ok" else None
            if data != exp:
                s5.violate({"src": pr["src"]}, exp.hex(), data.hex() if data is not None else (r.get("exc"), r.get("error")),
                           "an identifier does not denote the value of its innermost definition (" + kind + ")")
        s5.sample({"src": fam[0][0], "expected": fam[0][1].hex()})
        s6 = pipeline.wild_stream(run_, "C06", tier, seed)
    finally:
        run_.close()
    return [s1, s2, s3, s4, s5, s6]


def whole_group(text):
    """the text is one parenthesised group (its first parenthesis closes at the very end)"""
    t = text.strip()
    if not t.startswith("("):
        return False
    d = 0
    for i, ch in enumerate(t):
        d += ch == "("
        d -= ch == ")"
        if d == 0:
            return i == len(t) - 1
    return False


def huge_shift(toks):
    """True when evaluating the list could shift by more than 4096 bits or build a number beyond 2^8192"""
    from a816.parse.ast.expression import shunting_yard
    from a816.parse.ast.nodes import BinOp, UnaryOp
    try:
        rpn = shunting_yard(build_ast(toks).tokens)
    except Exception:  # noqa: BLE001
        return False
    st = []
    try:
        for n in rpn:
            v = n.token.value
            if isinstance(n, BinOp):
                b, a = st.pop(), st.pop()
                if v in ("<<", ">>") and abs(b) > 4096:
                    return True
                r = {"+": a + b, "-": a - b, "*": a * b, "&": a & b, "|": a | b}.get(v)
                if v == "<<":
                    r = a << b if b >= 0 else 0
                if v == ">>":
                    r = a >> b if b >= 0 else 0
                if r is None:
                    return False
                if abs(r) > (1 << 8192):
                    return True
                st.append(r)
            elif isinstance(n, UnaryOp):
                a = st.pop()
                st.append(-a if v == "-" else (~a & 0xFFFFFFFF))
            elif v and v[0].isdigit():
                try:
                    st.append(int(v, 0) if not v.startswith("0") or len(v) == 1 or v[1] in "xb" else int(v))
                except ValueError:
                    return False
            elif v == "va":
                st.append(5)
            elif v in ("(", ")"):
                continue
            else:
                return False
    except (IndexError, TypeError):
        return False
    return False


def strip_outer_for_macro(t):
    return t


def depth(t):
    k = t[0]
    if k in ("num", "var"):
        return 0
    if k in ("paren",):
        return depth(t[1])
    if k == "un":
        return 1 + depth(t[2])
    return 1 + max(depth(t[2]), depth(t[3]))


def skeleton(t):
    k = t[0]
    if k in ("num", "var"):
        return "x"
    if k == "paren":
        return "(" + skeleton(t[1]) + ")"
    if k == "un":
        return t[1] + skeleton(t[2])
    return skeleton(t[2]) + t[1] + skeleton(t[3])


def climb(toks):
    """conventional reading of operand op operand op ... (left-assoc, LEVEL precedence)"""
    pos = [0]

    def parse(maxlevel):
        left = toks[pos[0]]
        pos[0] += 1
        while pos[0] < len(toks) and LEVEL[toks[pos[0]]] <= maxlevel:
            o = toks[pos[0]]
            pos[0] += 1
            right = parse(LEVEL[o] - 1)
            left = ("bin", o, left, right)
        return left

    return parse(9)
