"""C20 — legacy conversions: correspondence with the model and the Spec oracle on the real functions."""
from __future__ import annotations

import multiprocessing as mp

import core
import impl

M = 2305843009213693951
MODES = {"low_rom": (0x00, 0x6F, 0x8000, 0x380000, "low"), "low_rom_2": (0x80, 0xCF, 0x8000, 0x280000, "low"),
         "high_rom": (0xC0, 0xFF, 0x10000, 0x400000, "high")}


def hstep(h, code):
    return (h * 1000003 + code + 1) % M


def _funcs():
    from a816.cpu.cpu_65c816 import RomType, rom_to_snes, snes_to_rom
    return RomType, rom_to_snes, snes_to_rom


def _chunk(args):
    """hash of rom_to_snes over [lo,hi) + list of property failures observed on the real code"""
    mode, lo, hi = args
    RomType, r2s, s2r = _funcs()
    first, last, size, limit, busname = MODES[mode]
    bus = impl.bus_of(busname)
    rt = RomType[mode]
    h = 0
    bad = []
    for off in range(lo, hi):
        a = r2s(off, rt)
        h = hstep(h, a)
        if off < limit:
            p = bus.get_address(a).physical
            back = s2r(a)
            if p != off and len(bad) < 3:
                bad.append((off, hex(a), "mapped offset", p))
            if back != off and (mode != "low_rom_2" or off < 0x200000) and len(bad) < 3:
                bad.append((off, hex(a), "snes_to_rom", back))
    return h, bad


def run(ctx):
    tier, seed = ctx["tier"], ctx["seed"]
    drv = core.Driver()
    rng = core.rng_for(seed, "c20")
    RomType, r2s, s2r = _funcs()
    from script.formulas import base_relative_16bits_pointer_formula, long_low_rom_pointer

    s = core.Stream("S10-conv", "rom_to_snes / snes_to_rom on bank-boundary and random offsets of the 4 MiB space x 3 modes vs model; oracle: Spec.address of the mode's range, mapped offset on the assembler's bus = offset, snes_to_rom inverts; non-trivial = distinct (mode, 32K bank) pairs")
    offs = set()
    for k in range(0, 0x400000, 0x8000):
        offs.update({k, k + 1, k + 0x7FFF, max(k - 1, 0)})
    for _ in range(2000 if tier == "quick" else 20000):
        offs.add(rng.randrange(0x400000))
    offs = sorted(offs)
    for mode, (first, last, size, limit, busname) in MODES.items():
        bus = impl.bus_of(busname)
        model = drv.ask([f"leg r2s {mode} {o}" for o in offs])
        spec = drv.ask([f"spec.address {first} {last} {size} {o}" for o in offs])
        addrs = []
        for o, m_, sp in zip(offs, model, spec):
            a = r2s(o, RomType[mode])
            addrs.append(a)
            s.cases += 1
            s.nontrivial.add((mode, o // 0x8000))
            if str(a) != m_:
                s.disagree({"fn": "rom_to_snes", "mode": mode, "off": o}, m_, a)
            if o < limit:
                s.count(f"{mode}:in-range")
                if str(a) != sp:
                    s.violate({"fn": "rom_to_snes", "mode": mode, "off": hex(o)}, sp, a, "rom_to_snes is not the address of that offset in the mode's bank range")
                p = bus.get_address(a).physical
                if p != o:
                    s.violate({"fn": "rom_to_snes", "mode": mode, "off": hex(o)}, o, p, "mapped file offset of rom_to_snes(off) on the assembler's bus is not off")
                if mode != "low_rom_2" or o < 0x200000:
                    back = s2r(a)
                    if back != o:
                        s.violate({"fn": "snes_to_rom", "addr": hex(a)}, o, back, "snes_to_rom does not invert rom_to_snes")
            else:
                s.count(f"{mode}:beyond-range")
        model2 = drv.ask([f"leg s2r {a}" for a in addrs])
        for a, m_ in zip(addrs, model2):
            s.cases += 1
            if str(s2r(a)) != m_:
                s.disagree({"fn": "snes_to_rom", "addr": a}, m_, s2r(a))
        s.sample({"mode": mode, "off": hex(offs[5]), "model": model[5], "spec": spec[5]})

    s2 = core.Stream("S10-pointers", "long_low_rom_pointer(base)(p) and base_relative_16bits_pointer_formula(base)(v) on random/boundary pairs vs model; oracle: little-endian 3 bytes of Spec.address(base+p); lo + 256 hi + base")
    pairs = [(0x08C000, 12), (0, 0), (0x7FFF, 1), (0x37FFFF, 0)]
    for _ in range(1500 if tier == "quick" else 20000):
        base = rng.randrange(0x380000)
        pairs.append((base, rng.randrange(0x380000 - base)))
    model = drv.ask([f"leg longptr {b} {p}" for b, p in pairs])
    # the formula covers the whole 4 MiB LoROM image (banks 0x00-0x7F), also beyond the banks the assembler's bus maps
    pairs += [(0x380000, 0), (0x37FFF0, 0x20), (0x3F0000, 0x10), (0x3FFFFF, 0), (0x378000, 0x8000)]
    for _ in range(60):
        base = rng.randrange(0x340000, 0x400000)
        pairs.append((base, rng.randrange(0x400000 - base)))
    model = drv.ask([f"leg longptr {b} {p}" for b, p in pairs])
    spec = drv.ask([f"spec.address 0 127 32768 {b + p}" for b, p in pairs])
    for (b, p), m_, sp in zip(pairs, model, spec):
        try:
            got = "ok " + long_low_rom_pointer(b)(p).hex()
        except Exception:
            got = "err"
        s2.cases += 1
        s2.nontrivial.add(((b + p) // 0x8000, (b % 0x8000 + p) >= 0x8000))
        if got != m_:
            s2.disagree({"fn": "long_low_rom_pointer", "base": b, "p": p}, m_, got)
        a = int(sp)
        exp = "ok " + bytes([a & 0xFF, (a >> 8) & 0xFF, a >> 16]).hex()
        if got != exp:
            s2.violate({"fn": "long_low_rom_pointer", "base": hex(b), "p": hex(p)}, exp, got, "not the little-endian 3-byte LoROM address of offset base+p")
    # one converter object used for a whole pointer table: every result is the address of its own offset, whatever was
    # converted before (pointers that move back and forth across 32 KiB and 64 KiB boundaries, repeats)
    for k in range(40 if tier == "quick" else 600):
        base = rng.choice([0, 0x8000, 0x100000, 0x0F8000, rng.randrange(0x3F0000) & ~0x7FFF, rng.randrange(0x3F0000)])
        conv = long_low_rom_pointer(base)
        room = 0x400000 - base
        ps = []
        for _ in range(rng.randrange(2, 9)):
            c = rng.random()
            if c < 0.4:
                ps.append(rng.choice([0x0C, 0x7FFF, 0x8000, 0x8001, 0xFFFF, 0x10000, 0x17FFF, 0x18000]) % room)
            elif c < 0.6 and ps:
                ps.append(rng.choice(ps))
            else:
                ps.append(rng.randrange(min(room, 0x30000)))
        spec = drv.ask([f"spec.address 0 127 32768 {base + p}" for p in ps])
        for i, (p, sp) in enumerate(zip(ps, spec)):
            try:
                got = "ok " + conv(p).hex()
            except Exception:  # noqa: BLE001
                got = "err"
            a = int(sp)
            exp = "ok " + bytes([a & 0xFF, (a >> 8) & 0xFF, a >> 16]).hex()
            s2.cases += 1
            s2.count("converter-reused")
            s2.nontrivial.add(("seq", (base + p) // 0x8000 % 2, i))
            if got != exp:
                s2.violate({"fn": "long_low_rom_pointer", "base": hex(base), "pointers_in_order_on_one_converter": [hex(x) for x in ps[:i + 1]]}, exp, got,
                           "a converter that has already produced other pointers does not give the LoROM address of offset base+p")
                break
    # the pointer-table helpers of script.pointers built on the two formulas
    import io as _io
    import os as _os
    import tempfile as _tf
    from script.pointers import Pointer, Script, write_pointers_addresses_as_binary
    tmpd = _tf.mkdtemp(prefix="a816verif-")
    try:
        for k in range(10 if tier == "quick" else 100):
            base = rng.choice([0, 0x8000, 0x0F7F00, rng.randrange(0x3E0000)])
            lens = [rng.choice([0, 1, 5, 0x100, 0x7FFF, 0x8000, rng.randrange(0x3000)]) for _ in range(rng.randrange(1, 8))]
            ptrs = []
            ids = list(range(len(lens)))
            rng.shuffle(ids)
            for i in ids:
                p_ = Pointer(i)
                p_.value = bytes(lens[i])
                ptrs.append(p_)
            out = _os.path.join(tmpd, "ptr.bin")
            try:
                with impl.quiet():
                    write_pointers_addresses_as_binary(ptrs, long_low_rom_pointer(base), out)
                data = open(out, "rb").read()
            except Exception as e:  # noqa: BLE001
                data = None
            pos, offs = 0, []
            for ln in lens:
                offs.append(base + pos)
                pos += ln
            spec = drv.ask([f"spec.address 0 127 32768 {o}" for o in offs])
            exp = b"".join(bytes([int(a) & 0xFF, (int(a) >> 8) & 0xFF, int(a) >> 16]) for a in spec)
            s2.cases += 1
            s2.count("pointer-table")
            s2.nontrivial.add(("table", len(lens), base // 0x8000 % 2))
            if offs[-1] < 0x400000 and data != exp:
                s2.violate({"fn": "write_pointers_addresses_as_binary + long_low_rom_pointer", "base": hex(base), "text_lengths": lens}, exp.hex(), data.hex() if data is not None else "raised",
                           "the pointer table does not hold the LoROM address of base + (sum of the preceding texts' lengths) for every text, in id order")
            # reading a table of 16-bit pointers back with the base-relative formula
            vals16 = [rng.randrange(0x10000) for _ in range(rng.randrange(1, 6))]
            skip = rng.randrange(0, 5)
            blob = bytes(skip) + b"".join(v.to_bytes(2, "little") for v in vals16)
            b2 = rng.randrange(0, 0x3F0000)
            with impl.quiet():
                got = [p.get_address() for p in Script(_io.BytesIO(b"")).read_pointers(_io.BytesIO(blob), skip, len(vals16), 2, base_relative_16bits_pointer_formula(b2))]
            s2.cases += 1
            if got != [v + b2 for v in vals16]:
                s2.violate({"fn": "Script.read_pointers + base_relative_16bits_pointer_formula", "base": b2, "values": vals16}, [v + b2 for v in vals16], got,
                           "16-bit pointers are not decoded little-endian and offset by base")
    finally:
        import shutil as _sh
        _sh.rmtree(tmpd, ignore_errors=True)
    vals = [(0x10000, 0x10, 0x20), (0, 0xFF, 0xFF), (0x100000, 0x00, 0x90), (0, 0, 0x80)]
    for _ in range(1500 if tier == "quick" else 20000):
        vals.append((rng.randrange(-0x1000, 0x400000), rng.randrange(256), rng.randrange(256)))
    model = drv.ask([f"leg rel16 {b} {lo} {hi}" for b, lo, hi in vals])
    for (b, lo, hi), m_ in zip(vals, model):
        got = f"ok {base_relative_16bits_pointer_formula(b)(bytes([lo, hi]))}"
        s2.cases += 1
        s2.nontrivial.add(("rel16", hi >= 0x80, b < 0))
        if got != m_:
            s2.disagree({"fn": "rel16", "base": b, "v": [lo, hi]}, m_, got)
        if got != f"ok {lo + 256 * hi + b}":
            s2.violate({"fn": "base_relative_16bits_pointer_formula", "base": b, "v": [lo, hi]}, lo + 256 * hi + b, got, "not lo + 256*hi + base")
    s2.sample({"pair": pairs[0], "model": model[0]})
    # the assembler under each mapping option (selected the way the file API / command line select it: after the Program
    # exists) places a byte assembled at rom_to_snes(off, mode) at file offset off
    s4 = core.Stream("S10-assembler-agrees", "for each mapping (low, low2, high) a Program whose mapping is selected after construction (as Program.assemble / assemble_as_patch / the command line do) assembles `*=rom_to_snes(off, mode)` + one byte: the writer receives it at file offset off, and snes_to_rom of the address is off")
    import io as _io2
    from a816.program import Program as _Program
    for mode, mapping in (("low_rom", "low"), ("low_rom_2", "low2"), ("high_rom", "high")):
        limit = MODES[mode][3]
        for off in [0, 0x7FFF, 0x8000, 0x12345, 0x1FFFFE, rng.randrange(min(limit, 0x200000)), rng.randrange(min(limit, 0x200000))]:
            a = r2s(off, RomType[mode])
            w = impl.CollectWriter()
            try:
                with impl.quiet():
                    p_ = _Program()
                    if hasattr(p_, "_select_mapping"):
                        p_._select_mapping(mapping)
                    else:
                        p_.resolver.rom_type = RomType[mode]
                    err = p_.assemble_string_with_emitter(f"*=0x{a:06x}\n.db 0x42\n", "m.s", w)
                got = w.blocks[0][0] if err is None and w.blocks else ("error", err)
            except Exception as e:  # noqa: BLE001
                got = ("raised", type(e).__name__)
            s4.cases += 1
            s4.nontrivial.add((mode, off // 0x8000))
            if got != off:
                s4.violate({"mapping": mapping, "offset": hex(off), "address": hex(a)}, off, got, "a byte assembled at rom_to_snes(off, mode) under that mapping is not written at file offset off")
    s4.sample({"mapping": "high", "offset": "0x8000", "address": "0xc08000"})
    streams = [s, s2, s4]

    if tier == "thorough":
        s3 = core.Stream("S10-exhaustive", "every offset of the 4 MiB space x 3 modes: rom_to_snes vs model and Spec.address by rolling hash per 64 KiB chunk; mapped offset and snes_to_rom inverse checked on the real code for every in-range offset")
        s3.exhaustive = True
        tasks = [(mode, lo, lo + 0x10000) for mode in MODES for lo in range(0, 0x400000, 0x10000)]
        with mp.Pool(16) as pool:
            res = pool.map(_chunk, tasks, chunksize=4)
        model = drv.ask([f"legrange r2s {mode} {lo} {hi}" for mode, lo, hi in tasks])
        spec = drv.ask([f"spec.addressrange {MODES[mode][0]} {MODES[mode][1]} {MODES[mode][2]} {lo} {hi}" for mode, lo, hi in tasks])
        for (mode, lo, hi), (h, bad), mh, sh in zip(tasks, res, model, spec):
            s3.cases += hi - lo
            s3.nontrivial.add((mode, lo))
            if str(h) != mh:
                s3.disagree({"fn": "rom_to_snes", "mode": mode, "range": [hex(lo), hex(hi)]}, mh, h, "hash over the chunk")
            if hi <= MODES[mode][3] and str(h) != sh:
                s3.violate({"fn": "rom_to_snes", "mode": mode, "range": [hex(lo), hex(hi)]}, sh, h, "rom_to_snes differs from Spec.address somewhere in this chunk (hash)")
            for off, a, what, got in bad:
                s3.violate({"fn": what, "mode": mode, "off": hex(off), "addr": a}, off, got, f"{what} of rom_to_snes(off) is not off")
        s3.sample({"task": tasks[0], "hash": model[0]})
        streams.append(s3)
    return streams
