"""C12 — front ends vs the in-memory assembler over the option lattice format x mapping x copier x defines."""
from __future__ import annotations

import itertools
import os

import core
import gen_program
import impl
import pipeline
from props import frontends
from props.c11 import parse_blocks, apply as apply_records

MAP_ROM = {"low": "low_rom", "low2": "low_rom_2", "high": "high_rom", None: "low_rom"}


def image_of(blocks, shift=0):
    img = {}
    for a, d in blocks:
        for k, b in enumerate(d):
            img[a + shift + k] = b
    return img


def label_classes(stmts):
    """label name -> 'outside' (every definition stands outside loop bodies), 'loop' (inside one), 'mixed' (a macro body
    applied both inside and outside loops); derived from the program text structure only"""
    macros = {st[1]: st[3] for st in stmts if st[0] == "macro"}
    out = {}

    def mark(name, where):
        out[name] = where if out.get(name, where) == where else "mixed"

    def walk(body, in_loop, depth=0):
        if depth > 6:
            return
        for st in body:
            k = st[0]
            if k == "label":
                mark(st[1], "loop" if in_loop else "outside")
            elif k == "block":
                walk(st[1], in_loop, depth)
            elif k == "scope":
                walk(st[2], in_loop, depth)
            elif k == "if":
                walk(st[2], in_loop, depth)
                if st[3] is not None:
                    walk(st[3], in_loop, depth)
            elif k == "for":
                walk(st[4], True, depth)
            elif k == "apply":
                walk(macros.get(st[1], []), in_loop, depth + 1)
                for a in st[2]:
                    if isinstance(a, tuple):
                        walk(a[1], in_loop, depth + 1)
    walk([st for st in stmts if st[0] != "macro"], False)
    return out


def sfc_image_of(data):
    return {k: b for k, b in enumerate(data)}


def run(ctx):
    tier, seed = ctx["tier"], ctx["seed"]
    rng = core.rng_for(seed, "c12")
    run_ = pipeline.Runner()
    drv = run_.drv
    try:
        s = core.Stream("S8-front", "every point of the option lattice format {ips, sfc} x mapping {default, low, low2, high} x copier-header {off, on} x -D definitions {none, one, two} x generated programs valid under that mapping, through Program.assemble / assemble_as_patch (in-process) and the x816 command line (subprocess); oracle: output = IPS writer / flat image of the in-memory blocks under the same mapping and definitions, SFC = IPS applied to an empty image, copier header shifts by exactly 0x200, -D acts as a constant; the option plan and the file formats are compared with the model; non-trivial = distinct lattice points x entry")
        lattice = list(itertools.product(["ips", "sfc"], [None, "low", "low2", "high"], [False, True], [0, 1, 2]))
        per_point = 1 if tier == "quick" else 6
        cli_budget = 24 if tier == "quick" else 400
        for fmt, mapping, copier, ndef in lattice:
            for rep_i in range(per_point):
                rom = MAP_ROM[mapping]
                pr = gen_program.generate(rng, drv, rom=rom, features={"incbin": False, "usermap": False})
                defines = [("DEF_A", rng.randrange(0, 0x100)), ("DEF_B", rng.randrange(0x100, 0xFFFF))][:ndef]
                # on the command line VALUE is an expression over what is already defined (earlier -D items included)
                cli_defs = list(defines)
                form = rng.randrange(4)
                if ndef and form == 1:
                    cli_defs[0] = ("DEF_A", "0x%x" % defines[0][1])
                if ndef == 2 and form >= 2:
                    a, b = defines[0][1], defines[1][1]
                    cli_defs[1] = ("DEF_B", [f"DEF_A+{b - a}", f"(DEF_A<<4)+{b - (a << 4)}" if b >= (a << 4) else f"{b + a}-DEF_A"][form - 2])
                    assert eval(cli_defs[1][1].replace("DEF_A", str(a))) == b
                src = pr["src"]
                if ndef:
                    src += "*=0x%06x\n" % ({"low_rom": 0x1F8000, "low_rom_2": 0x9F8000, "high_rom": 0xCF0000}[rom]) + "".join(f".dw {k}\nlda.w #{k} + 1\n" for k, _ in defines)
                    # the definitions are constants of the whole program: visible to .if / .for / := (evaluated while the
                    # program is expanded) and shadowed by scope-local names like any top-level constant
                    k0 = defines[0][0]
                    src += (f".if {k0} & 1 {{\n.db 0x11\n}} else {{\n.db 0x22\n}}\n.if {k0} - {defines[0][1]} {{\n.db 0x33\n}} else {{\n.db 0x44\n}}\n"
                            f"zz_c := {k0} + 1\n.dw zz_c\n.for zz_i := 0, ({k0} & 3) + 1 {{\n.db zz_i\n}}\n"
                            f"{{\n{k0} = 7\n.db {k0}\n}}\n.macro zz_m({k0}) {{\n.dw {k0}\n}}\nzz_m(0x1234)\n.for {k0} := 0, 2 {{\n.db {k0}\n}}\n.dw {k0}\n")
                if ndef == 0 and rep_i == 0 and fmt == "ips":
                    # one contiguous block longer than two IPS records (a large included binary)
                    big = bytes(range(256)) * 0x200 + bytes(range(rng.randrange(1, 40)))
                    impl.write_files(run_.tmp, None, {"c12big.bin": big})
                    src += "*=0x%06x\n.incbin 'c12big.bin'\n.db 0x5a\n" % ({"low_rom": 0x208000, "low_rom_2": 0xA08000, "high_rom": 0xD00000}[rom])
                    s.count("with-3-record-block")
                if rng.random() < 0.3:
                    # characters inside a quoted string are data for every entry point (a literal TAB stays one byte)
                    ta = {"low_rom": 0x228000, "low_rom_2": 0xA28000, "high_rom": 0xD20000}[rom]
                    src += "*=0x%06x\n.ascii 'a\tb\t\tc  d'\ntab_end_zq:\n.dw tab_end_zq\n" % ta
                    s.count("with-tab-in-string")
                if rep_i == 0:
                    # blocks made of one repeated byte (padding, NOP sleds, cleared tables), alone between two positions
                    fb = {"low_rom": 0x218000, "low_rom_2": 0xA18000, "high_rom": 0xD10000}[rom]
                    src += "*=0x%06x\n.db %s\n*=0x%06x\n%s*=0x%06x\n.db 1, 2\n" % (
                        fb, ", ".join(["0xFF"] * rng.randrange(4, 40)), fb + 0x100, "nop\n" * rng.randrange(4, 20), fb + 0x200)
                    s.count("with-uniform-blocks")
                base = impl.assemble(src, rom, defines=defines, cwd=run_.tmp)
                if base["status"] != "ok":
                    s.count("base-rejected")
                    continue
                blocks = base["blocks"]
                shift = 0x200 if (copier and fmt == "ips") else 0
                # model of the plan and of the file
                plan = drv.ask([f"plan {fmt} {mapping or 'low'} {1 if copier else 0} " + (",".join(f"{k.encode().hex()}={v}" for k, v in defines) or "-")])[0]
                exp_plan = f"{fmt} {rom} {1 if (copier and fmt == 'ips') else 0} {ndef}"
                if plan != exp_plan:
                    s.disagree({"lattice": (fmt, mapping, copier, ndef)}, plan, exp_plan, "option plan")
                blk = ";".join(f"{a}:{d.hex() or '-'}" for a, d in blocks) or "-"
                if fmt == "ips":
                    mfile = drv.ask([f"ipsw {1 if copier else 0} {blk}"])[0]
                else:
                    mfile = "ok " + drv.ask([f"sfcimage {blk}"])[0]
                entries = ["api"] + (["cli"] if cli_budget > 0 else [])
                for e in entries:
                    if e == "api":
                        rep, data, _, labels = frontends.file_api("assemble" if fmt == "sfc" else "patch", src, run_.tmp, mapping=mapping, copier=copier, defines=defines)
                    else:
                        cli_budget -= 1
                        rep, data, _, err = frontends.cli(src, run_.tmp, fmt=fmt, mapping=mapping, copier=copier, defines=cli_defs)
                        s.count("cli-define-form:" + ("plain", "hex", "earlier-name+", "earlier-name-expr")[form] if ndef else "cli-define-form:none")
                    s.cases += 1
                    s.nontrivial.add((fmt, mapping, copier, ndef, e))
                    s.count(f"{e}:{fmt}:{mapping}:{'copier' if copier else 'plain'}:D{ndef}")
                    inp = {"format": fmt, "mapping": mapping, "copier": copier, "defines": cli_defs if e == "cli" else defines, "entry": e, "src": src}
                    if not rep.startswith("status 0") or data is None:
                        s.violate(inp, "status 0 and an output file", (rep, (err if e == "cli" else "")[-200:]), "a program that assembles in memory fails through this front end / option combination")
                        continue
                    got = "ok " + (data.hex() or "-")
                    if got != mfile:
                        s.disagree(inp, mfile[:120], got[:120], "file bytes vs model of the writer on the in-memory blocks")
                    if fmt == "ips":
                        sp = drv.ask([f"spec.ipsparse {data.hex() or '-'}"])[0]
                        if not sp.startswith("some"):
                            s.violate(inp, "a well-formed IPS file", sp, "front end wrote a malformed IPS file")
                            continue
                        recs = parse_blocks(sp[5:] if len(sp) > 5 else "-")
                        if apply_records(recs) != image_of(blocks, shift):
                            s.violate(inp, f"in-memory blocks shifted by {hex(shift)}", "different patch effect", "IPS front end does not produce the in-memory bytes at the in-memory offsets (mapping / copier header / defines)")
                    else:
                        img = image_of(blocks)
                        fimg = sfc_image_of(data)
                        extent = max(img) + 1 if img else 0
                        ok = len(data) == extent and all(fimg.get(k, 0) == img.get(k, 0) for k in range(extent))
                        if not ok:
                            s.violate(inp, "flat image = in-memory blocks (= IPS applied to an empty image)", f"{len(data)} bytes", "SFC front end does not produce the in-memory bytes at the in-memory offsets")
        s.sample({"lattice_points": len(lattice)})

        # SFC writer: block sequences whose offsets coincide with the number of bytes written so far, overlaps, gaps
        s3 = core.Stream("S8-sfc-layout", "flat-image output of programs with several non-contiguous blocks (a later block placed at the offset equal to the bytes written so far, blocks out of order, overlapping re-writes, gaps) through Program.assemble and x816 -f sfc: image = in-memory blocks = IPS patch applied to an empty image")
        for i in range(12 if tier == "quick" else 120):
            n1 = rng.randrange(1, 9)
            first = rng.choice([0x018000, 0x028000, 0x008100])
            second = rng.choice([0x008000 + n1, 0x008000, 0x008000 + n1 + 1, first + 2])
            if i % 4 == 0:
                second = 0x008000 + n1      # the offset that equals the number of bytes written so far
            n2 = rng.randrange(1, 6)
            src = f"*=0x{first:06x}\n.db " + ", ".join(str(rng.randrange(256)) for _ in range(n1)) + f"\n*=0x{second:06x}\n.db " + ", ".join(str(rng.randrange(256)) for _ in range(n2)) + "\n"
            if i % 4 == 1:
                # the same bytes written again at the same place after another block overlapped them
                blk = ", ".join(str(rng.randrange(256)) for _ in range(4))
                src = f"*=0x008000\n.db {blk}\n*=0x008001\n.db 0xAA, 0xBB\n*=0x008000\n.db {blk}\n"
            if i % 4 == 3:
                src = "*=0x008000\nzz_only_definitions = 5\n"   # a program that emits nothing
            base = impl.assemble(src, "low_rom", cwd=run_.tmp)
            if base["status"] != "ok":
                continue
            img = image_of(base["blocks"])
            for e in ("api", "cli") if i % 3 == 0 else ("api",):
                if e == "api":
                    rep, data, _, _ = frontends.file_api("assemble", src, run_.tmp)
                    rep2, ips, _, _ = frontends.file_api("patch", src, run_.tmp)
                else:
                    rep, data, _, _ = frontends.cli(src, run_.tmp, fmt="sfc")
                    ips = None
                s3.cases += 1
                s3.nontrivial.add((n1, first, second - 0x008000, e))
                extent = max(img) + 1 if img else 0
                if data is None or len(data) != extent or any(data[k] != img.get(k, 0) for k in range(extent)):
                    s3.violate({"src": src, "entry": e}, "flat image of the in-memory blocks", None if data is None else data[:16].hex(), "SFC output does not hold the in-memory bytes at the in-memory offsets")
                if ips is not None:
                    sp = drv.ask([f"spec.ipsparse {ips.hex() or '-'}"])[0]
                    if sp.startswith("some") and data is not None:
                        pimg = apply_records(parse_blocks(sp[5:] if len(sp) > 5 else "-"))
                        if any(data[k] != pimg.get(k, 0) for k in range(len(data))) or (pimg and max(pimg) + 1 != len(data)):
                            s3.violate({"src": src}, "SFC image = IPS patch applied to an empty image", "differs", "the two output formats disagree")
        s3.sample({"shape": "*=A .db n1 bytes / *=0x008000+n1 .db n2 bytes"})

        s2 = core.Stream("S8-symbol-file", "exports_symbol_file after assembling generated programs (and programs that define the same label name in several scopes at the same address): every label definition emitted outside a loop-iteration scope appears once, as 'bb:oooo name' with the bank and offset of its value (oracle from the per-node trace); the text is also compared with the model's symbolFile")
        from a816.cpu.cpu_65c816 import RomType
        from a816.program import Program
        progs2 = [gen_program.generate(rng, drv) for _ in range(15 if tier == "quick" else 150)]
        progs2.append({"src": "*=0x008000\n.scope vectors {\nentry:\n}\n.scope main {\nentry:\nrts\n}\ndup:\n{\ndup:\n}\n", "rom": "low_rom", "files": {}, "bins": {}, "stmts": []})
        for pr in progs2:
            tr = impl.trace_assemble(pr["src"], pr["rom"], cwd=(impl.write_files(run_.tmp, pr["files"], pr["bins"]) or run_.tmp))
            if tr["status"] != "ok" or tr.get("nodes") is None:
                continue
            w = impl.CollectWriter()
            with impl.quiet():
                p = Program()
                p.resolver.rom_type = RomType[pr["rom"]]
                old = os.getcwd()
                os.chdir(run_.tmp)
                try:
                    p.assemble_string_with_emitter(pr["src"], "main.s", w)
                    out = os.path.join(run_.tmp, "syms.txt")
                    p.exports_symbol_file(out)
                finally:
                    os.chdir(old)
            text = open(out, encoding="utf-8").read()
            labels = impl.labels_of(p.resolver)
            s2.cases += 1
            s2.nontrivial.add(len(labels))
            m_ = drv.ask(["symfile " + (";".join(f"{k.encode().hex()}={v}" for k, v in labels) or "-")])[0]
            if m_ != (text.encode().hex() or "-"):
                s2.disagree({"src": pr["src"][:300]}, m_[:100], text[:100])
            # independent of the resolver's scope classes: which labels stand (lexically) outside every loop body
            cls_ = label_classes(pr.get("stmts") or [])
            import collections as _c
            emitted = _c.Counter(n["name"] for n in tr["nodes"] if n["cls"] == "LabelNode")
            listed = _c.Counter(l.split(" ")[-1] for l in text.split("\n")[1:] if l)
            for name, where in cls_.items():
                # (labels of blocks nested in a loop body live in ordinary scopes and are listed by the code; the
                # property only fixes the definitions made outside loop iterations)
                want = {"outside": emitted[name]}.get(where)
                if want is not None and listed[name] != want:
                    s2.violate({"src": pr["src"][:800], "label": name}, f"{want} line(s) for {name} ({where} loop bodies, emitted {emitted[name]} time(s))", f"{listed[name]} line(s)",
                               "the symbol file does not list each label definition made outside loop iterations once (or lists one made inside)")
                    break
            lines = sorted(l for l in text.split("\n")[1:] if l)
            exp = sorted(f"{(n['run'] >> 16) & 0xFF:2x}:{n['run'] & 0xFFFF:4x} {n['name']}" for n in tr["nodes"]
                         if n["cls"] in ("LabelNode", "BinaryNode") and n.get("scope_cls") != "InternalScope")
            # a name defined twice in one scope is one dict entry: the file then has one line for it (last value)
            if lines != exp and not text.startswith("[labels]\n"):
                s2.violate({"src": pr["src"][:400]}, "[labels] header", text[:20], "symbol file header missing")
            elif lines != exp:
                import collections
                ce, cl = collections.Counter(exp), collections.Counter(lines)
                missing = list((ce - cl).elements())[:3]
                extra = list((cl - ce).elements())[:3]
                s2.violate({"src": pr["src"][:600]}, {"missing": missing}, {"unexpected": extra}, "symbol file does not list each label definition outside loop iterations once with its bank and offset")
        s2.sample({"format": "bb:oooo name"})
        # ---- the SFC writer on an image that is already open (position not 0), and two programs into one image
        s4 = core.Stream("S8-sfc-writer-api", "SFCWriter objects created on an open image file whose position is not 0 (an existing image that was read from, or written by an earlier writer): a program whose first block goes to offset 0 (`*=0x008000`), then others; a second program into the same open file through a new SFCWriter; oracle: the image is the previous image with every block at its own offset -- the same bytes the IPS patch of the same blocks gives when applied to it; non-trivial = distinct (initial position, block layouts)")
        import io
        from a816.program import Program
        from a816.writers import SFCWriter
        for i in range(12 if tier == "quick" else 120):
            base = bytearray(rng.randrange(256) for _ in range(rng.randrange(0, 0x120)))
            f = io.BytesIO(bytes(base))
            how = i % 3
            if how == 0:
                f.read(min(len(base), rng.randrange(1, 0x40)))       # a tool that looked at the header first
            elif how == 1:
                f.seek(0, 2)                                          # opened for appending / positioned at the end
            else:
                f.seek(rng.randrange(1, 0x200))
            n1, n2 = rng.randrange(1, 9), rng.randrange(1, 9)
            d1 = [rng.randrange(256) for _ in range(n1)]
            d2 = [rng.randrange(256) for _ in range(n2)]
            off2 = rng.randrange(0x10, 0x300)
            src1 = "*=0x008000\n.db " + ", ".join(map(str, d1)) + f"\n*=0x{0x8000 + off2:06x}\n.db " + ", ".join(map(str, d2)) + "\n"
            src2 = "*=0x008000\n.db " + ", ".join(map(str, d2)) + "\n"
            image = bytearray(base)

            def put(img, off, data):
                if len(img) < off:
                    img.extend(b"\x00" * (off - len(img)))
                img[off:off + len(data)] = bytes(data)
            try:
                with impl.quiet(), core.watchdog(20):
                    e1 = Program().assemble_string_with_emitter(src1, "a.s", SFCWriter(f))
                    put(image, 0, d1)
                    put(image, off2, d2)
                    e2 = None
                    if i % 2 == 0:
                        e2 = Program().assemble_string_with_emitter(src2, "b.s", SFCWriter(f))
                        put(image, 0, d2)
                got = f.getvalue() if e1 is None and e2 is None else ("error", e1, e2)
            except core.Timeout:
                continue
            except Exception as e:  # noqa: BLE001
                got = ("raised", type(e).__name__, str(e)[:100])
            s4.cases += 1
            s4.nontrivial.add((how, len(base), n1, off2, i % 2))
            s4.count(("after-read", "at-end", "after-seek")[how])
            if got != bytes(image):
                s4.violate({"first": src1, "second": src2 if i % 2 == 0 else None, "initial image": bytes(base).hex(), "position of the file before the writer was created": ("after a read", "end of file", "after a seek")[how]},
                           bytes(image)[:48].hex(), got[:48].hex() if isinstance(got, bytes) else str(got), "the SFC image written through a writer created on an already positioned file is not the image with every block at its own offset")
        s4.sample({"first": "*=0x008000 .db … / *=0x008010 .db …", "file": "BytesIO positioned at its end"})
        return [s, s2, s3, s4]
    finally:
        run_.close()
