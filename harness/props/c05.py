"""C05 — see props/layout.py (shared body of the layout properties)."""
from props import layout


def run(ctx):
    return layout.run_prop("C05", ctx)
