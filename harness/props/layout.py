"""Shared check body for the layout properties C02, C03, C05, C07: generated programs through the real
assembler (per-node trace) and the model; property oracle on the real run; property-specific streams."""
from __future__ import annotations

import core
import gen_program
import impl
import pipeline

ORACLES = {"C02": pipeline.oracle_c02, "C03": pipeline.oracle_c03, "C05": pipeline.oracle_c05, "C07": pipeline.oracle_c07}


def stat_key(pr, r):
    return r["status"] if r["status"] != "rejected" else "rejected:" + str(r["exc"] or "error-string")


def general_stream(run, prop, tier, seed, n_quick, n_thorough):
    rng = core.rng_for(seed, prop + "-general")
    s = core.Stream("S4-programs", "grammar-directed mostly-valid programs (instructions of every supported shape, data, labels, constants, symbols, blocks, named scopes, macros with value and code arguments, .if, .for, .incbin, *= / @= to ROM and RAM, bank-end placements, LoROM/HiROM/low2/user .map) through the real assembler with per-node trace vs the whole-pipeline model (writes block by block, labels in order, outcome class); " + prop + " oracle on every real run; non-trivial = distinct (rom, outcome, statement-kind set)")
    n = n_quick if tier == "quick" else n_thorough
    progs = pipeline.gen_batch(rng, run.drv, n)
    for pr, r, m in run.run(progs):
        s.cases += 1
        s.count(stat_key(pr, r))
        s.nontrivial.add((pr["rom"], r["status"], tuple(sorted(k for k in pr["hist"] if not k.startswith("operand")))))
        for k, v in pr["hist"].items():
            s.count("kind:" + k, v)
        run.correspond(s, pr, r, m)
        ORACLES[prop](run, s, pr, r)
    s.sample({"rom": progs[0]["rom"], "src": progs[0]["src"][:400]})
    return s


def raw(rom, src, **kw):
    d = {"src": src, "rom": rom, "files": {}, "bins": {}, "hist": {}}
    d.update(kw)
    return d


# ------------------------------------------------------------------------------------------------ C02
def c02_streams(run, tier, seed):
    rng = core.rng_for(seed, "c02-unstable")
    s = core.Stream("S4-width-unstable", "programs in which an inferred-width operand changes value between label resolution and emission (a constant shadowed by a later inner label, a constant re-assigned with `=`, a macro/loop variant): they must be rejected, or all addresses must still agree; plus duplicate labels; non-trivial = distinct patterns x values")
    progs = []
    for i in range(72 if tier == "quick" else 720):
        small = rng.choice([0, 1, 0x10, 0xFF])
        big = rng.choice([0x100, 0x1234, 0xFFFF, 0x12345])
        a, b = rng.choice([(small, big), (big, small)])
        org = rng.choice(["", "*=0x008000\n", "*=0x01fff0\n", "*=0xc08000\n", "*=0x008000\n@=0x7e2000\n", "*=0x028000\n.db 1\n@=0x7f0100\n"])
        rom = "high_rom" if org.startswith("*=0xc0") else "low_rom"
        mn = rng.choice(["lda", "sta", "adc", "cmp", "ora"])
        pat = i % 9
        if pat == 6:
            # the re-definition comes AFTER the instruction (same block): label resolution sizes the operand with the
            # outer constant, emission with the inner symbol
            src = f"{org}x := 0x{a:x}\n{{\n{mn} x\nx = 0x{b:x}\n}}\nend:\n.db 0xE7\n.dl end\n"
        elif pat == 7:
            src = f"{org}x := 0x{a:x}\n{mn} x\nrts\nend:\n.db 0xE7\nx = 0x{b:x}\n.dw end\n"
        elif pat == 8:
            src = f"{org}x := 0x{a:x}\n.scope s {{\n{mn} x\nrts\nin:\n.db 0xE7\nx = 0x{b:x}\n}}\nend:\n.dl s.in, end\n"
        elif pat == 0:
            src = f"{org}x := 0x{a:x}\n{{\n{mn} x\nx:\n}}\nend:\n.dl end\n"
        elif pat == 1:
            src = f"{org}x := 0x{a:x}\nx = 0x{b:x}\n{mn} x\nend:\n.dw end\n"
        elif pat == 2:
            src = f"{org}x := 0x{a:x}\n.scope s {{\nx = 0x{b:x}\n{mn} x\nin:\n}}\nend:\n.dl s.in, end\n"
        elif pat == 3:
            src = f"{org}.macro m(v) {{\nv = 0x{b:x}\n{mn} v\nafter:\n.dw after\n}}\nm(0x{a:x})\nend:\n"
        elif pat == 4 and i % 12 == 4:
            # exports of a named scope stay in its enclosing scope: a same-named scope nested in a later block does not
            # redirect the top-level qualified label
            src = f"{org}.scope h {{\nstart:\nrts\n}}\n{{\n.scope h {{\nnop\nstart:\nrtl\n}}\n}}\nhere:\n.dl h.start, here\n"
        elif pat == 4:
            src = f"{org}dup:\n.db 1\ndup:\n.db 2\n.dw dup\nend:\n"
        elif pat == 5 and i % 12 == 5:
            # a label whose name already has a value in the same scope: the label's address must win
            src = f"{org}h := 0x{b:x}\nnop\nh:\n.dl h\n.scope v {{\nr := 0\nnop\nr:\n}}\n.dl v.r\nend:\n"
        else:
            src = f"{org}x := 0x{a:x}\n{{\nx = 0x{b:x}\n{mn} x\nbar:\n.dw 0xbeef\n.dl bar\n}}\nend:\n"
        progs.append(raw(rom, src))
    for pr, r, m in run.run(progs):
        s.cases += 1
        s.count(stat_key(pr, r))
        s.nontrivial.add((pr["src"].split("\n")[1:3].__str__(), r["status"]))
        run.correspond(s, pr, r, m)
        pipeline.oracle_c02(run, s, pr, r)
    s.sample({"src": progs[0]["src"]})
    return [s, c02_program_reuse(run, tier, seed)]


def c02_program_reuse(run, tier, seed):
    """one Program object, two sources one after the other: the labels of the second are those of a fresh Program"""
    import os
    from a816.program import Program
    rng = core.rng_for(seed, "c02-reuse")
    s = core.Stream("S4-program-reuse-labels", "a Program that has assembled one source assembles a second one that defines the same names (labels, an .incbin of the same file, a named scope, a block-local label) at other addresses: the second output -- the bytes, and the label / .incbin start and size values written with .dl -- equals that of a fresh Program, and every value is the address where the byte after the definition was placed; non-trivial = distinct (sizes, banks)")
    blob = bytes(rng.randrange(256) for _ in range(rng.randrange(1, 40)))
    with open(os.path.join(run.tmp, "blob_zq.bin"), "wb") as fh:
        fh.write(blob)

    def source(bank, n, m):
        pad = ", ".join(str(rng.randrange(256)) for _ in range(n))
        return (f"*=0x{bank:02x}8000\n.db {pad}\n.incbin 'blob_zq.bin'\nafter_zq:\n.scope sc_zq {{\n.db {m}\nin_zq:\n}}\n"
                f"{{\nloc_zq:\n.dw loc_zq\n}}\n.dl blob_zq_bin, blob_zq_bin__size, after_zq, sc_zq.in_zq\n"), n

    def assemble(prog, src):
        w = impl.CollectWriter()
        cwd = os.getcwd()
        os.chdir(run.tmp)
        try:
            with impl.quiet(), core.watchdog(20):
                try:
                    err = prog.assemble_string_with_emitter(src, "reuse.s", w)
                except Exception as e:  # noqa: BLE001
                    return ("raised", type(e).__name__, str(e)[:120])
        finally:
            os.chdir(cwd)
        return ("error", err[:120]) if err is not None else list(w.blocks)
    for i in range(16 if tier == "quick" else 160):
        (a_src, _), (b_src, nb) = source(rng.randrange(0, 4), rng.randrange(1, 20), rng.randrange(256)), source(rng.randrange(0, 4), rng.randrange(1, 20), rng.randrange(256))
        prog = Program()
        first = assemble(prog, a_src)
        if not isinstance(first, list):
            s.count("first-source-failed:no-claim")
            continue
        again = assemble(prog, b_src)
        fresh = assemble(Program(), b_src)
        s.cases += 1
        s.nontrivial.add((len(blob), nb, b_src[:12]))
        s.count("reused")
        inp = {"first": a_src, "second": b_src, "blob_zq.bin": blob.hex()}
        base = int(b_src[4:10], 16)
        start = base + nb
        after = start + len(blob)
        want_tail = b"".join(v.to_bytes(3, "little") for v in (start, len(blob), after, after + 1))
        if not isinstance(fresh, list) or not b"".join(b for _, b in fresh).endswith(want_tail):
            s.violate(inp, want_tail.hex(), str(fresh)[:200], "the .incbin start / size symbols, the label after it and the exported scope label do not evaluate to the addresses where the bytes were placed")
        elif again != fresh:
            s.violate(inp, str(fresh)[:200], str(again)[:200], "a Program that has assembled another source before gives the second source other label values / bytes than a fresh Program")
    s.sample({"second": source(1, 3, 7)[0]})
    return s


def program_reuse_maps(run, tier, seed, prop):
    """one Program, two sources: the second re-declares the address mapping (same identifier with another geometry, or a new
    identifier over banks the first source used), or follows a source that failed at top level after emitting bytes"""
    import os
    from a816.program import Program
    rng = core.rng_for(seed, prop + "-reuse-maps")
    s = core.Stream("S4-program-reuse-maps", "a Program assembles a first source (its own .map layout, code in primary and mirror banks, a branch relocated with @=; or a source that fails at top level after emitting bytes) and then a second source that begins with its own .map lines / `*=`: blocks, offsets and acceptance of the second equal those of a fresh Program (banks looked up under the first layout are translated under the second; nothing emitted by the failed source reaches the second writer); non-trivial = distinct scenarios")

    def assemble(prog, src):
        w = impl.CollectWriter()
        try:
            with impl.quiet(), core.watchdog(20):
                try:
                    err = prog.assemble_string_with_emitter(src, "reuse.s", w)
                except Exception:  # noqa: BLE001
                    return ("rejected",)
        except core.Timeout:
            return ("timeout",)
        return ("rejected",) if err is not None else list(w.blocks)
    pairs = []
    for i in range(6 if tier == "quick" else 60):
        bank = rng.randrange(1, 0x30)
        mb = 0x80 + bank
        d = [rng.randrange(256) for _ in range(4)]
        m32 = ".map identifier=1 bank_range=0x00,0x3f addr_range=0x8000,0xffff mask=0x8000 mirror_bank_range=0x80,0xbf\n"
        m64 = ".map identifier=1 bank_range=0x00,0x3f addr_range=0x0000,0xffff mask=0x10000 mirror_bank_range=0x80,0xbf\n"
        body = f"*=0x{mb:02x}8000\n.db {d[0]}, {d[1]}\nl1:\n.dl l1\n*=0x{bank:02x}9000\n.db {d[2]}\n*=0x{mb:02x}ffff\n.db {d[3]}, {d[0]}\nl2:\n.dl l2\n"
        pairs.append(("remap-same-identifier", m32 + body, m64 + body))
        pairs.append(("remap-same-identifier", m64 + body, m32 + body))
        rom = ".map identifier=1 bank_range=0x00,0x7f addr_range=0x8000,0xffff mask=0x8000\n"
        ram = ".map identifier=2 bank_range=0x7e,0x7f addr_range=0,0xffff mask=0x10000 writable=1\n"
        br = rng.choice(["bra", "bne", "bcc", "bmi"])
        code = f"*=0x{bank:02x}8000\n.db {d[0]}\n@=0x7e{0x8000 + rng.randrange(0x7000):04x}\nl:\n{rng.choice(["", "nop\n"])}{br} l\n"
        pairs.append(("bank-becomes-ram", rom + code, rom + ram + code))
        # the second source only adds the RAM mapping (the ROM mapping of the first is still declared): the relocated
        # branch now runs in RAM and must be refused -- expectation given, a fresh Program would know no ROM mapping
        pairs.append(("bank-becomes-ram-added", rom + code, ram + code))
        pairs.append(("after-top-level-failure", f"*=0x{bank:02x}8000\n.db {d[0]}, {d[1]}, {d[2]}\n.db undefined_zq_{i}\n", f"*=0x{bank + 1:02x}8000\n.db {d[3]}\nl:\n.dl l\n"))
    for kind, a_src, b_src in pairs:
        prog = Program()
        assemble(prog, a_src)
        again = assemble(prog, b_src)
        fresh = ("rejected",) if kind == "bank-becomes-ram-added" else assemble(Program(), b_src)
        s.cases += 1
        s.nontrivial.add((kind, b_src))
        s.count(kind + (":rejected" if fresh == ("rejected",) else ":ok"))
        if again != fresh:
            s.violate({"first": a_src, "second": b_src, "api": "one Program: assemble_string_with_emitter(first); assemble_string_with_emitter(second)"}, str(fresh)[:300], str(again)[:300],
                      "the second source of a re-used Program is placed / accepted differently than by a fresh Program (an address, a bank lookup or block bytes of the first assembly are still in use)")
    s.sample({"first": pairs[0][1], "second": pairs[0][2]})
    return s


# ------------------------------------------------------------------------------------------------ C03
def c03_streams(run, tier, seed):
    rng = core.rng_for(seed, "c03-pos")
    s = core.Stream("S4-positions", "position-heavy programs: sequences of *= / @= (ROM and RAM targets, back to offset 0, bank-end placements, > 64 KiB incbin) with data between them, under LoROM / HiROM / low2 / user .map; C03 oracle: flattened writes = emitted bytes at the storage offsets *= selects, offset = mapped offset of the run address while no @= intervenes; non-trivial = distinct position sequences")
    progs = []
    for i in range(60 if tier == "quick" else 600):
        rom = rng.choice(["low_rom", "low_rom", "high_rom", "low_rom_2"])
        g = gen_program.Gen(rng, run.drv, rom=rom, features={"incbin": True})
        lines = []
        bins = {}
        nsec = rng.randrange(2, 6)
        run_at = None
        for k in range(nsec):
            c = rng.random()
            if k > 0 and run_at is not None and c < 0.15:
                # `*=` to exactly the address the relocated code has reached: the output still moves to that address's
                # own offset (it is not "already there")
                lines.append(f"*=0x{run_at:06x}")
                s.count("star-eq-at-running-address")
                run_at = None
            elif k == 0 or c < 0.55:
                a = g.rom_addr(near_end=rng.random() < 0.4)
                if rng.random() < 0.2:
                    a = {"low_rom": 0x008000, "high_rom": 0xC00000, "low_rom_2": 0x808000}[rom]
                lines.append(f"*=0x{a:06x}")
                run_at = None
            elif c < 0.75:
                lines.append(f"@=0x{0x7E0000 + rng.randrange(0xF000):06x}")
                run_at = None
            else:
                run_at = g.rom_addr()
                lines.append(f"@=0x{run_at:06x}")
            for _ in range(rng.randrange(1, 4)):
                k2 = rng.random()
                if k2 < 0.5:
                    nb = rng.randrange(1, 30)
                    lines.append(".db " + ", ".join(str(rng.randrange(256)) for _ in range(nb)))
                    run_at = run_at + nb if run_at is not None else None
                elif k2 < 0.7:
                    lines.append(f"l{len(lines)}:")
                    lines.append(f".dl l{len(lines) - 1}")
                    run_at = run_at + 3 if run_at is not None else None
                elif k2 < 0.85:
                    ins = rng.choice(["nop", "lda.w #0x1234", "sta.l 0x7e0000,x", "jmp.w 0x8000"])
                    lines.append(ins)
                    run_at = run_at + {"nop": 1, "lda.w #0x1234": 3, "sta.l 0x7e0000,x": 4, "jmp.w 0x8000": 3}[ins] if run_at is not None else None
                elif tier == "thorough" or rng.random() < 0.3:
                    name = f"big{len(lines)}.bin"
                    ln = rng.choice([5, 300, 0x10010]) if rom != "low_rom_2" else rng.choice([5, 300])
                    bins[name] = bytes([rng.randrange(256)]) * ln
                    lines.append(f".incbin '{name}'")
                    run_at = None
        if i % 3 == 1:
            # the same IPS file brought in several times with different deltas (directly, and through a macro applied
            # twice): every inclusion places the file's records at offset + its own delta
            recs = []
            for _ in range(rng.randrange(1, 4)):
                off = rng.randrange(0, 0x7000)
                if rng.random() < 0.3:
                    recs.append(off.to_bytes(3, "big") + b"\x00\x00" + rng.randrange(1, 40).to_bytes(2, "big") + bytes([rng.randrange(256)]))
                else:
                    data = bytes(rng.randrange(256) for _ in range(rng.randrange(1, 12)))
                    recs.append(off.to_bytes(3, "big") + len(data).to_bytes(2, "big") + data)
            bins["p_zq.ips"] = b"PATCH" + b"".join(recs) + b"EOF"
            deltas = rng.sample([0, 0x10, 0x200, 0x8000, 0x10000, 0x12345, 0x20000], 3)
            pos = sorted(rng.sample(range(1, len(lines) + 1), min(2, len(lines))))
            for j, at in enumerate(reversed(pos)):
                lines.insert(at, f".include_ips 'p_zq.ips', 0x{deltas[j]:x}")
            if i % 2 == 1:
                lines.insert(0, ".macro ipz_zq(d_zq) {\n.include_ips 'p_zq.ips', d_zq\n}")
                lines.append(f"ipz_zq(0x{deltas[2]:x})\nipz_zq(0x{deltas[0] + 0x40:x})")
            s.count("same-ips-file-several-deltas")
            used = [deltas[j] for j in range(len(pos))] + ([deltas[2], deltas[0] + 0x40] if i % 2 == 1 else [])
            plain = []
            for rec in recs:
                off, ln = int.from_bytes(rec[:3], "big"), int.from_bytes(rec[3:5], "big")
                plain.append((off, rec[5:5 + ln] if ln else rec[7:8] * int.from_bytes(rec[5:7], "big")))
            ips_expect = [(off + d, data) for d in used for off, data in plain]
        else:
            ips_expect = None
        progs.append(raw(rom, "\n".join(lines) + "\n", bins=bins, ips_expect=ips_expect))
    for pr, r, m in run.run(progs):
        s.cases += 1
        s.count(stat_key(pr, r))
        s.nontrivial.add(tuple(l[:2] for l in pr["src"].split("\n") if l[:2] in ("*=", "@=")) + (pr["rom"],))
        run.correspond(s, pr, r, m)
        pipeline.oracle_c03(run, s, pr, r)
        pipeline.oracle_c02(run, s, pr, r)
        if pr.get("ips_expect") and r["status"] == "ok":
            got = [(a, bytes(b)) for a, b in r["blocks"]]
            missing = [(a, d.hex()) for a, d in pr["ips_expect"] if (a, d) not in got]
            if missing:
                s.violate({"src": pr["src"], "p_zq.ips": pr["bins"]["p_zq.ips"].hex()}, {"records written at offset + delta of each inclusion": [(a, d.hex()) for a, d in pr["ips_expect"]][:8]},
                          {"not written": missing[:6]}, "an IPS file included several times with different deltas: some inclusion's records are not placed at their offset plus that inclusion's delta")
    s.sample({"rom": progs[0]["rom"], "src": progs[0]["src"][:300]})
    return [s, c03_ram_sections(run, tier, seed), c03_positions_in_bodies(run, tier, seed), program_reuse_maps(run, tier, seed, "C03")]


def c03_positions_in_bodies(run, tier, seed):
    rng = core.rng_for(seed, "c03-bodies")
    s = core.Stream("S4-positions-in-bodies", "`*=` / `@=` whose operand names a loop variable, a macro parameter or a block-local symbol that also has another value in an enclosing scope: each expansion positions its bytes with the value the name has there; expected blocks given; non-trivial = distinct shapes x values")
    fam = []
    for i in range(8 if tier == "quick" else 80):
        outer, n, step = rng.randrange(4, 9), rng.randrange(2, 5), rng.choice([0x10, 0x20, 0x100])
        base = 0x018000
        off = lambda a: ((a >> 16) * 0x8000) + (a & 0x7FFF)   # noqa: E731  (LoROM)
        fam.append((f"k_zq := {outer}\n.for k_zq := 0, {n} {{\n*=0x{base:06x} + k_zq * 0x{step:x}\n.db k_zq, 0x5a\n}}\n",
                    [(off(base + k * step), bytes([k, 0x5A])) for k in range(n)]))
        fam.append((f"k_zq := {outer}\n.macro at_zq(k_zq) {{\n*=0x{base:06x} + k_zq * 0x{step:x}\n.db k_zq\n}}\nat_zq(1)\nat_zq(3)\n*=0x{base:06x} + k_zq * 0x{step:x}\n.db 0xEE\n",
                    [(off(base + 1 * step), b"\x01"), (off(base + 3 * step), b"\x03"), (off(base + outer * step), b"\xee")]))
        fam.append((f"k_zq := {outer}\n*=0x{base:06x}\n.db 0x11\n{{\nk_zq = 2\n*=0x{base:06x} + k_zq * 0x{step:x}\n.db k_zq\n}}\n*=0x{base:06x} + k_zq * 0x{step:x}\n.db 0xEE\n",
                    [(off(base), b"\x11"), (off(base + 2 * step), b"\x02"), (off(base + outer * step), b"\xee")]))
    progs = [raw("low_rom", src, meta=exp) for src, exp in fam]
    for pr, r, m in run.run(progs, trace=False):
        s.cases += 1
        s.nontrivial.add(pr["src"])
        run.correspond(s, pr, r, m)
        got = [(a, bytes(b)) for a, b in r["blocks"]] if r["status"] == "ok" else None
        if got != pr["meta"]:
            s.violate({"src": pr["src"]}, [(hex(a), b.hex()) for a, b in pr["meta"]], [(hex(a), b.hex()) for a, b in got] if got is not None else (r.get("exc"), r.get("error")),
                      "bytes positioned by a `*=` / `@=` inside a loop / macro / block body are not written at the offset of the address the operand has in that expansion")
    s.sample({"src": fam[0][0]})
    return s


def c03_ram_sections(run, tier, seed):
    """code stored in ROM but assembled for RAM: *= and @= whose target is a RAM bank (built-in 7E/7F, or a writable
    user mapping of any bank size: cartridge RAM 70-7D:0000-7FFF, low-RAM mirrors) in the middle of a program"""
    rng = core.rng_for(seed, "c03-ram")
    s = core.Stream("S4-ram-sections", "programs that move to RAM addresses in mid-stream: `*=` and `@=` to built-in work RAM and to writable user mappings with 32K / 8K / 64K bank sizes, after bytes were emitted and followed by code, labels and references to them; oracle: nothing already stored is replaced (a RAM target has no offset to move to: storage continues), run addresses advance by the number of bytes emitted (RAM: +n), labels = run address; compared with the model; non-trivial = distinct (mapping, directive sequence)")
    progs = []
    for i in range(40 if tier == "quick" else 400):
        user = rng.random() < 0.6
        lines, regions = [], None
        if user:
            rmask = rng.choice([0x8000, 0x8000, 0x2000, 0x10000])
            rlo = rng.choice([0x70, 0x60, 0x40])
            rhi = rlo + rng.randrange(0, 0xE)
            romask = rng.choice([0x8000, 0x10000])
            lines.append(f".map identifier=1 bank_range=0x00,0x3f addr_range=0x{0x10000 - romask:x},0xffff mask=0x{romask:x}")
            lines.append(f".map identifier=2 bank_range=0x{rlo:x},0x{rhi:x} addr_range=0,0x{rmask - 1:x} mask=0x{rmask:x} writable=1")
            regions = [(0, 0x3F, romask, False), (rlo, rhi, rmask, True)]
            ram_addr = lambda: (rng.randrange(rlo, rhi + 1) << 16) | rng.choice([0, 0x100, rng.randrange(0, rmask - 0x100), rng.randrange(0, 0xFF00)])  # noqa: E731
            rom_addr = lambda: (rng.randrange(0, 0x40) << 16) | rng.randrange(0x10000 - romask, 0xFF00)  # noqa: E731
            rom = "low_rom"
        else:
            rom = rng.choice(["low_rom", "high_rom"])
            ram_addr = lambda: 0x7E0000 + rng.randrange(0x1FF00)  # noqa: E731
            rom_addr = (lambda: (rng.randrange(0, 0x60) << 16) | rng.randrange(0x8000, 0xFF00)) if rom == "low_rom" else (lambda: ((0xC0 + rng.randrange(0, 0x3F)) << 16) | rng.randrange(0, 0xFF00))  # noqa: E731
        lines.append(f"*=0x{rom_addr():06x}")
        lines.append(".db " + ", ".join(str(rng.randrange(256)) for _ in range(rng.randrange(1, 9))))
        seq = []
        for k in range(rng.randrange(1, 4)):
            d = rng.choice(["*=", "@=", "@=", "*=rom"])
            seq.append(d)
            if d == "*=rom":
                lines.append(f"*=0x{rom_addr():06x}")
            else:
                lines.append(f"{d}0x{ram_addr():06x}")
            for _ in range(rng.randrange(1, 4)):
                c = rng.random()
                if c < 0.3:
                    lines.append(rng.choice(["nop", "lda.w #0x1234", "sta.l 0x7e0000,x", "rts"]))
                elif c < 0.55:
                    lines.append(".db " + ", ".join(str(rng.randrange(256)) for _ in range(rng.randrange(1, 6))))
                else:
                    nm = f"l{len(lines)}"
                    lines.append(f"{nm}:")
                    lines.append(rng.choice([f".dl {nm}", f".dw {nm} & 0xffff", f"lda.l {nm}", f"jmp.w {nm}", f".pointer {nm}"]))
        pr = raw(rom, "\n".join(lines) + "\n")
        if regions:
            pr["regions"] = regions
        pr["meta"] = (rom, tuple(seq), regions and regions[1][2])
        progs.append(pr)
    for pr, r, m in run.run(progs):
        s.cases += 1
        s.count(stat_key(pr, r))
        s.nontrivial.add(pr["meta"])
        run.correspond(s, pr, r, m)
        pipeline.oracle_c03(run, s, pr, r)
        pipeline.oracle_c02(run, s, pr, r)
        if r["status"] != "ok":
            s.violate({"src": pr["src"], "rom": pr["rom"]}, "assembled", r.get("exc") or r.get("error"), "a valid program with sections assembled for RAM is rejected")
    s.sample({"rom": progs[0]["rom"], "src": progs[0]["src"][:300]})
    return s


# ------------------------------------------------------------------------------------------------ C05
def c05_streams(run, tier, seed):
    rng = core.rng_for(seed, "c05-grid")
    s = core.Stream("S4-branch-grid", "every branch mnemonic x displacement -300..+300 (every value in thorough, all boundary values + a sample in quick) x placements (window start, middle, bank end) x with/without @= relocation (ROM and RAM) x LoROM/HiROM; oracle: opcode + signed displacement target-(branch+2), out of range / RAM rejected; non-trivial = distinct (mnemonic, displacement, placement, relocation, rom)")
    mns = ["bra", "bne", "beq", "bcc", "bcs", "bmi", "bpl"]
    ds = list(range(-300, 301)) if tier == "thorough" else sorted(set([-300, -200, -131, -130, -129, -128, -127, -126, -3, -2, -1, 0, 1, 2, 125, 126, 127, 128, 129, 130, 200, 300] + [rng.randrange(-300, 301) for _ in range(30)]))
    progs = []
    for d in ds:
        for mn in (mns if tier == "thorough" else [rng.choice(mns), rng.choice(mns)]):
            for place in ("start", "mid", "end"):
                rom = rng.choice(["low_rom", "high_rom"])
                winstart = 0x8000 if rom == "low_rom" else 0x0000
                bank = rng.randrange(1, 0x30) + (0xC0 if rom == "high_rom" else 0)
                pad = rng.randrange(0, 6)
                off = {"start": winstart, "mid": rng.randrange(winstart + 0x400, 0xF000), "end": 0x10000 - pad - 2 - rng.randrange(0, 3)}[place]
                base = (bank << 16) | off
                reloc = rng.choice(["none", "none", "rom", "rom0", "ram", "ram-target", "ram-source", "rom-then-org"])
                lines = [f"*=0x{base:06x}"]
                if reloc == "rom-then-org":
                    # an earlier block that was relocated to another ROM run address; the branch sits in a later *= block
                    other = ((bank + 2) << 16) | rng.randrange(winstart + 0x400, 0xF000)
                    rb = ((bank + 3) << 16) | rng.randrange(winstart + 0x400, 0xF000)
                    lines = [f"*=0x{other:06x}", ".db 1,2,3", f"@=0x{rb:06x}", ".db 4,5", f"*=0x{base:06x}"]
                if reloc == "rom":
                    rb = ((bank + 1) << 16) | rng.randrange(winstart + 0x400, 0xF000)
                    lines += [".db 1,2,3", f"@=0x{rb:06x}"]
                elif reloc == "rom0":
                    # relocation to the address whose mapped offset is 0, after the position has moved elsewhere
                    lines += [".db 1,2,3", "@=0x008000" if rom == "low_rom" else "@=0xc00000"]
                elif reloc == "ram":
                    lines += [".db 1,2,3", f"@=0x{0x7E0000 + rng.randrange(0x8000):06x}"]
                elif reloc == "ram-source":
                    # the branch runs from RAM, its target is a ROM label next to the storage position
                    lines += ["T:", ".db 1,2,3", f"@=0x{0x7E0000 + rng.randrange(0x8000):06x}"]
                lines.append("L:")
                if pad:
                    lines.append(".db " + ", ".join(["0"] * pad))
                n = pad + 2 + d
                if reloc == "ram-target":
                    lines.append(f"{mn} 0x7e{rng.randrange(0x10000):04x}")
                elif reloc == "ram-source":
                    lines.append(f"{mn} T + {rng.randrange(0, 8)}")
                else:
                    lines.append(f"{mn} L + {n}" if n >= 0 else f"{mn} L - {-n}")
                lines.append("after:")
                pr = raw(rom, "\n".join(lines) + "\n")
                pr["meta"] = (mn, d, place, reloc, rom)
                progs.append(pr)
    # user maps: RAM declared with a mirror range — a branch running in (or aiming at) the RAM banks or their mirror
    for k in range(6 if tier == "quick" else 40):
        mn = rng.choice(mns)
        ramlo = rng.choice([0x70, 0x60, 0x50])
        mir = rng.choice([0xF0, 0xE0])
        maps = (f".map identifier=1 bank_range=0x00,0x3f addr_range=0x8000,0xffff mask=0x8000\n"
                f".map identifier=2 bank_range=0x{ramlo:x},0x{ramlo + 1:x} addr_range=0,0xffff mask=0x10000 writable=1 mirror_bank_range=0x{mir:x},0x{mir + 1:x}\n")
        where = rng.choice([ramlo, mir, mir + 1])
        kind = k % 3
        if kind == 0:
            body = f"*=0x008000\nT:\n.db 1,2,3\n@=0x{where:02x}0000\n{mn} T\n"
        elif kind == 1:
            body = f"*=0x008000\n.db 1\n@=0x{where:02x}0010\nL:\nnop\n{mn} L\n"
        else:
            body = f"*=0x008000\n{mn} 0x{where:02x}0001\n"
        pr = raw("low_rom", maps + body, usermap=(0, 0x3f, 0x8000))
        pr["meta"] = (mn, 0, "usermap-ram-mirror", "ram", "low_rom")
        progs.append(pr)
    # same-bank targets a whole bank size away (64 KiB banks: HiROM, user maps with mask 0x10000): far out of range, never
    # wrapped into range; and the same logical target under two different user layouts assembled one after the other
    for k in range(8 if tier == "quick" else 60):
        mn = rng.choice(mns)
        bank = 0xC0 + rng.randrange(0, 0x3F)
        near_end = 0xFFF0 - rng.randrange(0, 0x40)
        near_start = rng.randrange(0, 0x40)
        a, b = (near_end, near_start) if k % 2 == 0 else (near_start, near_end)
        if k % 4 < 2:
            pr = raw("high_rom", f"*=0x{bank:02x}{a:04x}\n{mn} 0x{bank:02x}{b:04x}\n")
        else:
            ub = rng.randrange(0x00, 0x30)
            maps = f".map identifier=1 bank_range=0x00,0x3f addr_range=0,0xffff mask=0x10000\n"
            body = f"*=0x{ub:02x}{a:04x}\n" + (".db 1\n@=0x%02x%04x\n" % (ub + 1, a) if k % 8 >= 6 else "") + f"{mn} 0x{(ub + 1 if k % 8 >= 6 else ub):02x}{b:04x}\n"
            pr = raw("low_rom", maps + body, regions=[(0, 0x3F, 0x10000, False)])
        pr["meta"] = (mn, 0x10000, "far-same-bank", "far", pr["rom"])
        progs.append(pr)
    for k in range(6 if tier == "quick" else 40):
        mn = rng.choice(mns)
        tb = rng.choice([0x40, 0x50, 0x60])
        toff = rng.randrange(0x8040, 0xFF00)
        as_rom = f".map identifier=1 bank_range=0x00,0x7d addr_range=0x8000,0xffff mask=0x8000\n"
        as_ram = (f".map identifier=1 bank_range=0x00,0x3f addr_range=0x8000,0xffff mask=0x8000\n"
                  f".map identifier=2 bank_range=0x{tb:x},0x{tb + 1:x} addr_range=0,0xffff mask=0x10000 writable=1\n")
        other = f".map identifier=1 bank_range=0x{tb:x},0x{tb + 0xf:x} addr_range=0x8000,0xffff mask=0x8000\n.map identifier=2 bank_range=0x00,0x3f addr_range=0x8000,0xffff mask=0x8000\n"
        body_rom = f"*=0x{tb:02x}{toff:04x}\nT:\nnop\n{mn} T\n"
        body_abs = f"*=0x{tb:02x}{toff - 0x20:04x}\n{mn} 0x{tb:02x}{toff:04x}\n"
        order = [(as_rom, body_rom, [(0, 0x7D, 0x8000, False)], "ok"), (as_ram, f"*=0x008000\n{mn} 0x{tb:02x}{toff:04x}\n", [(0, 0x3F, 0x8000, False), (tb, tb + 1, 0x10000, True)], "ram"),
                 (other, body_abs, [(tb, tb + 0xF, 0x8000, False), (0, 0x3F, 0x8000, False)], "ok"), (as_rom, body_abs, [(0, 0x7D, 0x8000, False)], "ok")]
        if k % 2:
            order = [order[1], order[0], order[3], order[2]]
        for maps, body, regions, kind in order:
            pr = raw("low_rom", maps + body, regions=regions)
            pr["meta"] = (mn, 0, "layouts-in-sequence", "ram-target" if kind == "ram" else "seq", "low_rom")
            progs.append(pr)
    # code that runs out of the last ROM bank in front of RAM-mapped banks (HiROM: 0x7dffff -> 0x7e0000; a user layout with
    # RAM behind ROM): the branch that follows has a RAM run address
    for k in range(6 if tier == "quick" else 40):
        mn = rng.choice(mns)
        pad = rng.randrange(1, 6)
        start = 0x7E0000 - pad
        if k % 2 == 0:
            pr = raw("high_rom", f"*=0x{start:06x}\nback:\n" + "nop\n" * (pad + rng.randrange(0, 4)) + f"{mn} back\n")
        else:
            maps = (".map identifier=1 bank_range=0x00,0x7f addr_range=0,0xffff mask=0x10000\n"
                    ".map identifier=2 bank_range=0x7e,0x7f addr_range=0,0xffff mask=0x10000 writable=1\n")
            pr = raw("low_rom", maps + f"*=0x{start:06x}\nback:\n" + "nop\n" * (pad + rng.randrange(0, 4)) + f"{mn} back\n",
                     regions=[(0, 0x7D, 0x10000, False), (0x7E, 0x7F, 0x10000, True)])
        pr["meta"] = (mn, 0, "runs-into-ram", "ram-source", pr["rom"])
        progs.append(pr)
    for pr, r, m in run.run(progs):
        mn, d, place, reloc, rom = pr["meta"]
        s.cases += 1
        s.nontrivial.add(pr["meta"])
        s.count(stat_key(pr, r))
        s.count("reloc:" + reloc)
        run.correspond(s, pr, r, m)
        pipeline.oracle_c05(run, s, pr, r)
        # direct statement of the property on this program (independent of the trace wrappers)
        inp = {"src": pr["src"], "rom": rom}
        if reloc in ("ram", "ram-target", "ram-source"):
            if r["status"] == "ok":
                s.violate(inp, "rejected", "assembled", "a branch whose run address or target lies in RAM-mapped space is encoded")
            continue
        if reloc == "far":
            if r["status"] == "ok":
                s.violate(inp, "rejected (the target is a whole bank away: displacement far outside -128..127)", b"".join(b for _, b in r["blocks"])[-2:].hex(),
                          "an out-of-range same-bank displacement is wrapped into range instead of rejected")
            continue
        if reloc == "seq":
            # (the generic oracle above has judged the displacement; here: a valid in-range ROM branch must assemble whatever
            # layouts earlier programs of the process declared)
            if r["status"] != "ok":
                s.violate(inp, "assembled", r.get("exc") or r.get("error"), "an in-range same-bank ROM branch is rejected after programs with other .map layouts were assembled")
            continue
        lsrc = [l for l in pr["src"].split("\n") if l.startswith("*=") or l.startswith("@=")]
        region = int(lsrc[-1][2:], 16)
        pad = sum(l.count(",") + 1 for l in pr["src"].split("\n")[-5:] if l.startswith(".db 0"))
        branch_at = region + pad
        target = branch_at + 2 + d
        same_bank = (branch_at >> 16) == (target >> 16) and (branch_at + 2) >> 16 == branch_at >> 16
        in_window = (target & 0xFFFF) >= (0x8000 if rom == "low_rom" else 0) and target >= 0
        if not same_bank or not in_window:
            s.count("no-claim:cross-bank")
            continue
        data = b"".join(b for _, b in r["blocks"]) if r["status"] == "ok" else None
        if -128 <= d <= 127:
            if data is None:
                s.violate(inp, f"displacement byte {d % 256:02x}", r.get("exc") or "rejected", "an in-range same-bank ROM branch is rejected")
            elif data[-1] != d % 256:
                s.violate(inp, f"displacement byte {d % 256:02x}", data[-2:].hex(), "branch displacement is not target - (branch address + 2)")
        elif data is not None:
            s.violate(inp, "rejected (out of range)", data[-2:].hex(), "an out-of-range displacement is truncated instead of rejected")
    s.sample({"src": progs[0]["src"]})
    return [s, program_reuse_maps(run, tier, seed, "C05")]


# ------------------------------------------------------------------------------------------------ C07
def c07_streams(run, tier, seed):
    rng = core.rng_for(seed, "c07-data")
    s = core.Stream("S4-data", "data-directive programs: every directive kind x list lengths 1..8 x values (boundary, negative, wider than the field, forward/backward labels, constants) x .ascii texts x .incbin files (lengths 0, 1, crossing a bank end); oracle: exact little-endian truncation, verbatim file bytes, start/size symbols, following label = start + emitted size; non-trivial = distinct (kind, value class)")
    vals = [0, 1, 0x7F, 0x80, 0xFF, 0x100, 0xFFFF, 0x10000, 0xFFFFFF, 0x1000000, 0x12345678, -1, -2, -0x80, -0x100, -0x8000, -0x10000, -0x1000000]
    progs = []
    rebound = []
    for i in range(80 if tier == "quick" else 800):
        kind = rng.choice(["db", "dw", "dl", "pointer"])
        w = {"db": 1, "dw": 2, "dl": 3, "pointer": 3}[kind]
        n = rng.randrange(1, 9)
        items, expect = [], b""
        base = rng.choice([0x008000, 0x01FFF0, 0x02FFFE])
        for _ in range(n):
            c = rng.random()
            if c < 0.6:
                v = rng.choice(vals + [rng.randrange(-(1 << 26), 1 << 26)])
                items.append(("-0x%x" % -v) if v < 0 else "0x%x" % v)
            elif c < 0.8:
                v = base
                items.append("start")
            else:
                v = None
                items.append("after")
            expect += b"" if v is None else (v % (256 ** w)).to_bytes(w, "little")
        total = n * w
        bins = {}
        extra = ""
        if rng.random() < 0.4:
            ln = rng.choice([0, 1, 2, 20, 40, 0xFFF, 0x1000, 0x1001, 0x1800, 0x2345, 0x8000, 0x10001])
            bins["blob.bin"] = bytes(rng.randrange(256) for _ in range(min(ln, 64))) * (ln // 64 + 1)
            bins["blob.bin"] = bins["blob.bin"][:ln]
            extra = ".incbin 'blob.bin'\nafterbin:\n.dw blob_bin__size\n.dl blob_bin\n"
        txt = "".join(rng.choice(["a", "b", "c", " ", "X", "Y", "Z", "0", "9", "é", "\\'", "[0x41]", "[0x7f]", "[", "]", "[0x", "{", "}", ";", "/*", ",", "\\n", "%", "\t"]) for _ in range(rng.randrange(0, 6)))
        if i % 6 == 3:
            # comment-looking text inside a string is text (a complete /* */ pair, its halves); a text that ends with an
            # escaped quote
            txt = ["see /* the manual */ p.3", "a/*b*/c", "/**/", "x */ y /* z", "/* open", "close */", "; not a comment /* */",
                   "he said \\'go\\'", "x\\'", "\\'"][(i // 6) % 10]
        src = f"*=0x{base:06x}\nstart:\n.{kind} " + ", ".join(items) + f"\nafter:\n.ascii '{txt}'\nafter2:\n{extra}end:\n"
        progs.append(raw("low_rom", src, bins=bins, meta=(kind, n, base, total, txt)))
    # lists at and around sixteen entries over a name that the passes re-bind (inner `=` after an outer `:=`, a macro
    # parameter): every entry is evaluated when the directive is emitted, whatever the length of the list
    for n_ in (1, 15, 16, 17, 40) if tier == "quick" else (1, 2, 15, 16, 17, 31, 32, 33, 64, 200):
        for k_ in ("db", "dw", "dl"):
            w_ = {"db": 1, "dw": 2, "dl": 3}[k_]
            v1, v2 = rng.randrange(1, 0x40), rng.randrange(0x40, 0x80)
            items = ", ".join(f"base_zq + {i}" for i in range(n_))
            exp = b"".join(((v2 + i) % (256 ** w_)).to_bytes(w_, "little") for i in range(n_))
            src = f"*=0x018000\nbase_zq := {v1}\nstart:\n{{\nbase_zq = {v2}\n.{k_} {items}\n}}\nafter:\n.ascii ''\nafter2:\nend:\n"
            progs.append(raw("low_rom", src, bins={}, meta=(k_, n_, 0x018000, n_ * w_, "")))
            rebound.append((src, exp))
            src2 = f"*=0x018000\nbase_zq := {v1}\n.macro tbl_zq(base_zq) {{\n.{k_} {items}\n}}\nstart:\ntbl_zq({v2})\nafter:\n.ascii ''\nafter2:\nend:\n"
            progs.append(raw("low_rom", src2, bins={}, meta=(k_, n_, 0x018000, n_ * w_, "")))
            rebound.append((src2, exp))
    # long operand lists (a data table of a thousand entries on one directive)
    for k_, n_ in (("dw", 1100), ("db", 1300)) if tier == "quick" else (("dw", 2048), ("db", 1500), ("dl", 1200), ("pointer", 1100)):
        w_ = {"db": 1, "dw": 2, "dl": 3, "pointer": 3}[k_]
        items = [str((i * 7) % (256 ** min(w_, 2))) for i in range(n_)]
        src = f"*=0x018000\nstart:\n.{k_} " + ", ".join(items) + "\nafter:\n.ascii ''\nafter2:\nend:\n"
        progs.append(raw("low_rom", src, bins={}, meta=(k_, n_, 0x018000, n_ * w_, "")))
    for pr, r, m in run.run(progs):
        kind, n, base, total, txt = pr["meta"]
        s.cases += 1
        s.count(stat_key(pr, r))
        s.nontrivial.add((kind, n, base, len(txt), bool(pr["bins"])))
        run.correspond(s, pr, r, m)
        pipeline.oracle_c07(run, s, pr, r)
        pipeline.oracle_c02(run, s, pr, r)
        for src_, exp_ in rebound:
            if src_ == pr["src"]:
                got_ = b"".join(b for _, b in r["blocks"]) if r["status"] == "ok" else None
                s.count("rebound-name-list")
                if got_ != exp_:
                    s.violate({"src": pr["src"][:400]}, exp_.hex()[:80], got_.hex()[:80] if got_ is not None else (r.get("exc") or r.get("error")),
                              "a data list over a name re-bound by the passes does not emit the values the name has where the directive is emitted")
        if r["status"] == "ok" and r.get("nodes") is not None:
            # the output really holds every directive's bytes, in order, from the offset of `start` on
            import impl as _impl
            want = b"".join(n.get("bytes") or b"" for n in r["nodes"])
            p0 = run.spec_phys(pr, base)
            got = sorted(dict(_impl.flatten(r["blocks"])).items())
            if got != [(p0 + i, b) for i, b in enumerate(want)]:
                s.violate({"src": pr["src"], "bins": {k: len(v) for k, v in pr["bins"].items()}}, f"{len(want)} bytes from offset {hex(p0)}: the directives' bytes in order",
                          f"{len(got)} distinct offsets written", "the output does not hold exactly the bytes of the data directives / included file, each once, in order")
        if r["status"] == "ok":
            labs = dict(r["labels"])
            bus = __import__("impl").bus_of("low")
            exp_after = (bus.get_address(base) + total).logical_value
            if labs.get("after") != exp_after:
                s.violate({"src": pr["src"]}, hex(exp_after), labs.get("after"), "the directive does not occupy exactly its emitted size in the address layout")
            n_ascii = len(txt.encode("ascii", "ignore"))
            exp2 = (bus.get_address(base) + total + n_ascii).logical_value
            if labs.get("after2") != exp2:
                s.violate({"src": pr["src"]}, hex(exp2), labs.get("after2"), ".ascii does not occupy its emitted size")
            if "\\" not in txt and r.get("nodes") is not None:
                # the bytes of the .ascii are the ASCII bytes of the text as written in the source (no escapes here)
                an = [n_ for n_ in r["nodes"] if n_["cls"] == "AsciiNode"]
                if an and (an[0].get("bytes") or b"") != txt.encode("ascii", "ignore"):
                    s.violate({"src": pr["src"]}, txt.encode("ascii", "ignore").hex(), (an[0].get("bytes") or b"").hex(),
                              ".ascii does not emit the ASCII bytes of the quoted text as written")
            if pr["bins"]:
                blob = pr["bins"]["blob.bin"]
                exp3 = (bus.get_address(base) + total + n_ascii + len(blob)).logical_value
                if labs.get("afterbin") != exp3 or labs.get("blob_bin") != exp2:
                    s.violate({"src": pr["src"]}, (hex(exp2), hex(exp3)), (labs.get("blob_bin"), labs.get("afterbin")), ".incbin start symbol / size in layout wrong")
        else:
            s.violate({"src": pr["src"]}, "assembled", r.get("exc") or r.get("error"), "a valid data program is rejected")
    s.sample({"src": progs[0]["src"]})
    # values of symbol references: the innermost definition visible where the directive stands
    s2 = core.Stream("S4-data-references", "data directives whose operands name a symbol that also has an outer := constant of the same name (loop variable, inner label, macro parameter bound to a forward label): expected bytes written out by hand")
    fam = []
    for k in range(10 if tier == "quick" else 100):
        c = rng.randrange(4, 200)
        cnt = rng.randrange(1, 4)
        lo = rng.randrange(0, 3)
        fam.append((f"*=0x008000\nn := {c}\n.for n := {lo}, {lo + cnt} {{\n.db n\n}}\n", bytes(range(lo, lo + cnt))))
        fam.append((f"*=0x008000\nv := {c}\n.db 0\n{{\nv:\n.dw v\n}}\n", b"\x00\x01\x80"))
        fam.append((f"*=0x008000\nq := {c}\n.macro m(q) {{\n.dw q\n}}\nm(fwd)\nfwd:\n", b"\x02\x80"))
        fam.append((f"*=0x008000\nw := {c}\n.dw w\n{{\nw = {c + 1}\n.dw w\n}}\n.dw w\n", c.to_bytes(2, "little") + (c + 1).to_bytes(2, "little") + c.to_bytes(2, "little")))
    progs2 = [raw("low_rom", src, meta=exp) for src, exp in fam]
    for pr, r, m in run.run(progs2):
        s2.cases += 1
        s2.nontrivial.add(pr["src"][:40])
        run.correspond(s2, pr, r, m)
        data = b"".join(b for _, b in r["blocks"]) if r["status"] == "ok" else None
        if data != pr["meta"]:
            s2.violate({"src": pr["src"]}, pr["meta"].hex(), data.hex() if data is not None else r.get("exc"), "data directive does not emit the value of the innermost visible definition of its operand")
    s2.sample({"src": fam[0][0], "expected": fam[0][1].hex()})
    return [s, s2]


SPECIFIC = {"C02": c02_streams, "C03": c03_streams, "C05": c05_streams, "C07": c07_streams}


def run_prop(prop, ctx):
    tier, seed = ctx["tier"], ctx["seed"]
    run = pipeline.Runner()
    try:
        streams = [general_stream(run, prop, tier, seed, 400, 3000)]
        streams += SPECIFIC[prop](run, tier, seed)
        if prop in ("C02", "C03"):
            streams.append(pipeline.wild_stream(run, prop, tier, seed, oracles=(ORACLES[prop],)))
        if prop == "C02":
            # the position-heavy programs also exercise "actually placed": label address <-> file offset
            for st in c03_streams(run, tier, seed):
                st.name += "(C02 oracle)"
                st.violations = [v for v in st.violations if "label" in v["what"]]
                streams.append(st)
        streams.append(run.repeat_stream())
        return streams
    finally:
        run.close()
