"""C17 — error positions: an erroneous statement inserted at every line of generated programs (main and
included file); the reported file / line / column / quoted line must be those of the inserted statement."""
from __future__ import annotations

import re

import core
import gen_program
import impl
import pipeline

hx = lambda s: s.encode("utf-8").hex() or "-"  # noqa: E731

# (kind, statement text, column of the offending character or None, how it is reported)
ERRS = [
    ("undefined-operand", "lda.w undefined_sym_zq", None, "node"),
    ("undefined-operand-inferred", "lda undefined_sym_zq", None, "node"),
    ("undefined-data", ".dw 1, undefined_sym_zq", None, "node"),
    ("bad-size", "lda.q #0x00", 4, "scan"),
    ("bad-size-eol", "lda.", 4, "scan"),
    ("bad-index", "lda 0x10,q", 9, "scan"),
    ("unterminated-string", ".ascii 'abc", 7, "scan"),
    ("bad-size-indented", "    sta.z 0x10", 8, "scan"),
    ("unterminated-comment", "/* never closed", 0, "scan"),
    ("unterminated-comment-indented", "   /* never closed", 3, "scan"),
    # an unterminated string that ends in a backslash, followed by a line that holds a quoted string
    ("unterminated-string-backslash", ".ascii 'C:\\", 7, "scan"),
    # a statement continued over several lines: the report names the line the statement starts on
    ("undefined-data-continued", ".dw 1,\n  2,\n  undefined_sym_zq", None, "node"),
    ("undefined-db-continued", ".db 1, 2,\n undefined_sym_zq, 4", None, "node"),
    ("undefined-pointer-continued", ".pointer 0x018000,\nundefined_sym_zq", None, "node"),
    # an error raised by code generation with the directive's own token as location (no table in scope; where a table is
    # in scope the statement is valid and nothing is reported)
    ("text-without-table", ".text 'hello zq'", None, "node"),
    # syntax errors whose offending token is a number that ends its line (a lone `0` included: the scanner looks behind it
    # for a base prefix): reported on the statement's own line, at the token's column (statements that start with a keyword or a mnemonic: a
    # name-led one would be read as one more attribute of a `.map` line in front of it)
    ("stray-zero-eol", ".dw 1 0", 6, "parse"),
    ("stray-zero-after-operand", "lda.b #0 0", 9, "parse"),
    ("stray-number-eol", ".db 2 5", 6, "parse"),
]


def real_report(r):
    """(how, file, line, column, quoted line) of a failed real assembly"""
    if r["status"] != "rejected":
        return None
    if r["exc"] is None and r["error"]:
        e = r["error"]
        m = re.match(r"\n?(.*?):(\d+):(-?\d+) (?:: (.*)|TokenType\.\w+)\n(.*)\n", e + "\n")
        if m:
            how = "scan" if " : " in e.split("\n")[0] or (e.startswith(m.group(1)) and " : " in e.split("\n")[0]) else "parse"
            return (how, m.group(1), int(m.group(2)), int(m.group(3)), m.group(5))
        return ("unparsed", e[:80], None, None, None)
    if r["exc"] == "NodeError":
        m = re.search(r"at\n(.*?):(\d+) (.*)$", r["error"] or "", re.S)
        if m:
            return ("node", m.group(1), int(m.group(2)), None, m.group(3))
        return ("node-nopos", None, None, None, None)
    return ("exc:" + str(r["exc"]), None, None, None, None)


def model_report(m):
    w = m.split(" ")
    if m.startswith("error "):
        return (w[1], bytes.fromhex(w[2]).decode() if w[2] != "-" else "", int(w[3]), int(w[4]), bytes.fromhex(w[5]).decode() if w[5] != "-" else "")
    if m.startswith("raised NodeError") and len(w) >= 6 and w[3] != "-":
        return ("node", bytes.fromhex(w[3]).decode(), int(w[4]), None, bytes.fromhex(w[5]).decode() if w[5] != "-" else "")
    if m.startswith("raised NodeError"):
        return ("node-nopos", None, None, None, None)
    if m.startswith("raised"):
        return ("exc:" + w[1], None, None, None, None)
    return None


def run(ctx):
    tier, seed = ctx["tier"], ctx["seed"]
    rng = core.rng_for(seed, "c17")
    run_ = pipeline.Runner()
    try:
        s = core.Stream("S4-error-insertion", "an erroneous statement (undefined symbol in an operand with and without inferred width, in a data directive, bad size suffix in the middle and at the end of a line, bad index register, unterminated string, indented variants) inserted at line positions of generated valid programs (every position in thorough), in the main file and in an included file, preceded by comments / blank lines / blocks / macro definitions / multi-line comments; oracle: reported file, zero-based line, quoted line text and (lexical errors) column are those of the inserted statement; non-trivial = distinct (error kind, where, preceding construct)")
        progs = []
        nprog = 25 if tier == "quick" else 300
        for pi in range(nprog):
            pr = gen_program.generate(rng, run_.drv, features={"macros": True})
            lines = pr["src"].rstrip("\n").split("\n")
            # optional prefix that must not shift the report other than by its own lines
            prefix = rng.choice([[], ["; a comment", ""], ["/* multi", "line", "comment */"], ["", "", "   "], ["{", "nop ; x", "}"],
                                 [".macro unused_zq(a) {", ".db a", "}"],
                                 # characters that str.splitlines() treats as line breaks but the scanner does not
                                 ["nop ; end of page \x0c next page"], ["; a\u2028b \x85 c"], [".ascii 'x\x0bx\x1cy'"], ["; v\x1dt\x1e\u2029"],
                                 ["; dos header\r", "; second\r", ";\r"], ["/* dos\r", "comment\r", "*/"], ["nop ; eol\r", "; x\r"],
                                 ["/* page \x0c break", "second \u2028 line \x85 */"], ["/* one line \x0b\x1c\x1d\x1e\u2029 */"], ["nop", "/* a", "b\x0c */"]])
            lines = prefix + lines
            positions = list(range(len(prefix), len(lines) + 1))   # after the prefix (never inside its comment)
            if tier == "quick":
                positions = rng.sample(positions, min(4, len(positions)))
            for pos in positions:
                # insert only between complete statements: not inside a macro argument block `{ … }` spanning lines of an application
                kind, stmt, col, how = rng.choice(ERRS)
                where = rng.choice(["main", "main", "include"])
                new = lines[:pos] + [stmt] + ([".ascii 'hello'"] if kind == "unterminated-string-backslash" or rng.random() < 0.1 else []) + lines[pos:]
                if where == "main":
                    src = "\n".join(new) + "\n"
                    progs.append(dict(pr, src=src, meta=(kind, stmt, col, how, "main.s", pos, tuple(prefix[:1]))))
                else:
                    files = dict(pr["files"])
                    files["inc_zq.s"] = "\n".join(new) + "\n"
                    lead = rng.choice(["", "nop\n", "; c\n\n"])
                    progs.append(dict(pr, src=lead + ".include 'inc_zq.s'\n", files=files, meta=(kind, stmt, col, how, "inc_zq.s", pos, tuple(prefix[:1]))))
        for pr, r, m in run_.run(progs, trace=False):
            kind, stmt, col, how, fname, pos, pre = pr["meta"]
            s.cases += 1
            rep = real_report(r)
            mrep = model_report(m)
            s.count("real:" + (rep[0] if rep else "assembled"))
            s.nontrivial.add((kind, fname, pre, rep[0] if rep else None))
            # model vs code: same report
            if rep != mrep and not (rep and mrep and rep[0].startswith("exc") and mrep[0].startswith("exc")):
                if not (rep and mrep and rep[0] == "unparsed"):
                    s.disagree({"src": pr["src"], "files": pr["files"], "rom": pr["rom"]}, str(mrep), str(rep))
            if rep is None:
                if how == "node":
                    # the statement sits in code that is never generated (untaken .if branch, macro never applied,
                    # loop with no iteration): nothing to report
                    s.count("not-reached")
                    continue
                s.violate({"src": pr["src"], "files": pr["files"], "inserted": stmt, "at_line": pos, "file": fname}, "a lexical error", "assembled", "a lexically erroneous statement is not reported at all")
                continue
            # the inserted statement may legitimately not be the *first* error (an earlier statement can fail first when the
            # insertion breaks a multi-line construct); the claim applies when the report is of the inserted kind
            if rep[0] != how:
                s.count("other-error-first")
                continue
            exp_line_text = stmt.split("\n")[0]
            inp = {"src": pr["src"], "files": {k: v for k, v in pr["files"].items() if k == "inc_zq.s"}, "inserted": stmt, "at_line": pos, "file": fname}
            if how == "node" and rep[4] != exp_line_text:
                # an undefined symbol elsewhere in the program cannot occur (the base program is valid); a different quoted
                # line means the report points at another statement
                s.violate(inp, (fname, pos, stmt), rep[1:], "the reported location is not the statement that caused the error")
                continue
            if rep[1] != fname or rep[2] != pos or rep[4] != exp_line_text or (how in ("scan", "parse") and rep[3] != col):
                # lexical errors raised by an *earlier* line of the same kind are impossible in a valid base program
                s.violate(inp, (fname, pos, col if how in ("scan", "parse") else None, exp_line_text), rep[1:], "reported file / line / column / quoted line differ from the erroneous statement")
        s.sample({"src": progs[0]["src"][:300], "meta": str(progs[0]["meta"])})

        # one Program object used for two sources: the second source's errors are located in the second source
        s2 = core.Stream("S4-program-reuse", "a Program that has already assembled one source (of a different length and line structure) assembles a second, erroneous one: the report names the second source's file, line, column and line text")
        from a816.program import Program
        for i in range(24 if tier == "quick" else 240):
            first = gen_program.generate(rng, run_.drv, rom="low_rom", features={"incbin": False, "usermap": False})["src"]
            kind, stmt, col, how = rng.choice([e for e in ERRS if "\n" not in e[1]])
            pre = ["; c"] * rng.randrange(0, 9) + ["*=0x038000"] + ["nop"] * rng.randrange(0, 6)
            second = "\n".join(pre + [stmt] + ([".ascii 'hello'"] if kind == "unterminated-string-backslash" else []) + ["rts"]) + "\n"
            pos = len(pre)
            res = {"status": "ok", "exc": None, "error": None}
            try:
                with impl.quiet(), core.watchdog(20):
                    p = Program()
                    try:
                        first_err = p.assemble_string_with_emitter(first, "first.s", impl.CollectWriter())
                    except Exception:  # noqa: BLE001
                        first_err = "raised"
                    if first_err is not None:
                        # a Program left half-way by a failed assembly is not a state the property speaks about
                        s2.count("first-source-failed:no-claim")
                        continue
                    err = p.assemble_string_with_emitter(second, "second.s", impl.CollectWriter())
                if err is not None:
                    res = {"status": "rejected", "exc": None, "error": err}
            except core.Timeout:
                continue
            except BaseException as e:  # noqa: BLE001
                res = {"status": "rejected", "exc": type(e).__name__, "error": str(e)[:300]}
            rep = real_report(res)
            s2.cases += 1
            s2.nontrivial.add((kind, pos))
            s2.count(rep[0] if rep else "assembled")
            inp = {"first": first[:400], "second": second, "inserted": stmt, "at_line": pos}
            if rep is None:
                s2.violate(inp, "an error located in second.s", "assembled", "the erroneous second source is assembled")
            elif rep[0] != how:
                s2.violate(inp, (how, "second.s", pos, stmt), rep, "the second source's error is reported as another kind of failure (or not located)")
            elif rep[1] != "second.s" or rep[2] != pos or rep[4] != stmt or (how in ("scan", "parse") and rep[3] != col):
                s2.violate(inp, ("second.s", pos, col if how in ("scan", "parse") else None, stmt), rep[1:], "reported file / line / column / quoted line differ from the erroneous statement of the second source")
        # two sources of the same name in one process: an error of the first, raised and rendered after the second was
        # scanned under that name, still quotes the first source's own line
        s2b = core.Stream("S4-same-name-sources", "two different sources given the same file name in one process (two Programs): the first is parsed, then the second is parsed, then the first is resolved and emitted and fails on a statement that can only fail then (undefined name, .text without table): the NodeError, rendered after the second scan, names the line of the first source and quotes its text")
        node_errs = [e for e in ERRS if e[3] == "node" and "\n" not in e[1]]
        for i in range(16 if tier == "quick" else 160):
            kind, stmt, col, how = rng.choice(node_errs)
            pre = ["; c"] * rng.randrange(0, 7) + ["*=0x028000"] + ["nop"] * rng.randrange(0, 5)
            first = "\n".join(pre + [stmt, "rts"]) + "\n"
            pos = len(pre)
            other = "\n".join(["; other"] * rng.randrange(0, pos + 4) + ["*=0x008000", "sep #0x20"] + ["inx"] * rng.randrange(0, 3)) + "\n"
            name = rng.choice(["patch.s", "memory.s", "main.s"])
            res = {"status": "ok", "exc": None, "error": None}
            try:
                with impl.quiet(), core.watchdog(20):
                    pa, pb = Program(), Program()
                    ea, na = pa.parser.parse(first, name)
                    eb, nb = pb.parser.parse(other, name)
                    if ea is not None or eb is not None:
                        s2b.count("parse-failed:no-claim")
                        continue
                    pb.resolve_labels(nb)
                    pb.emit(nb, impl.CollectWriter())
                    pa.resolve_labels(na)
                    pa.emit(na, impl.CollectWriter())
            except core.Timeout:
                continue
            except BaseException as e:  # noqa: BLE001
                try:
                    txt = str(e)[:300]
                except BaseException as e2:  # noqa: BLE001
                    txt = "rendering the error raised " + type(e2).__name__
                res = {"status": "rejected", "exc": type(e).__name__, "error": txt}
            rep = real_report(res)
            s2b.cases += 1
            s2b.nontrivial.add((kind, pos, name))
            s2b.count(rep[0] if rep else "assembled")
            inp = {"first": first, "second": other, "name": name, "inserted": stmt, "at_line": pos, "api": "parse(first); parse(second); resolve+emit(second); resolve+emit(first)"}
            if rep is None:
                s2b.violate(inp, "an error located in the first source", "assembled", "the erroneous first source is assembled")
            elif rep[0] != "node" or rep[1] != name or rep[2] != pos or rep[4] != stmt:
                s2b.violate(inp, ("node", name, pos, stmt), rep, "an error of the first source, rendered after a second source of the same name was scanned, does not name the first source's line / quote its text")
        # the file API: what is reported refers to the file as it is on disk (leading blank lines, indentation kept)
        s3 = core.Stream("S4-file-api", "sources written to disk with leading blank lines / indentation / trailing blanks and assembled with Program.assemble_as_patch: the logged error names the file, the zero-based line of the erroneous statement, its column and its text")
        import logging
        import os
        from props import frontends
        for i in range(20 if tier == "quick" else 200):
            kind, stmt, col, how = rng.choice([e for e in ERRS if e[0] != "unterminated-string-backslash" and "\n" not in e[1] and e[3] != "parse"])
            lead = [rng.choice(["", "", "   ", "\t"]) for _ in range(rng.randrange(0, 4))]
            pre = lead + ["*=0x038000"] + ["nop"] * rng.randrange(0, 4)
            text = "\n".join(pre + [stmt, "rts"]) + rng.choice(["\n", "", "\n\n", "  \n"])
            pos = len(pre)
            name = f"file_zq_{i}.s"
            path = os.path.join(run_.tmp, name)
            with open(path, "w", encoding="utf-8") as fh:
                fh.write(text)
            cap = frontends.LogCapture()
            logging.disable(logging.NOTSET)
            loggers = [logging.getLogger("x816"), logging.getLogger("a816")]
            for lg in loggers:
                lg.addHandler(cap)
                lg.setLevel(logging.INFO)
                lg.propagate = False
            try:
                with impl.quiet(), core.watchdog(20):
                    try:
                        rc = Program().assemble_as_patch(path, os.path.join(run_.tmp, "file_zq.ips"))
                    except BaseException as e:  # noqa: BLE001
                        if isinstance(e, (KeyboardInterrupt, SystemExit, core.Timeout)):
                            raise
                        rc = "raised:" + type(e).__name__
                        cap.records.append(str(e))
            except core.Timeout:
                continue
            finally:
                for lg in loggers:
                    lg.removeHandler(cap)
                    lg.propagate = True
                logging.disable(logging.CRITICAL)
            msgs = [m for m in cap.records if "Success" not in m]
            joined = "\n".join(msgs)
            if re.search(r"at\n.*?:\d+ ", joined, re.S):
                res = {"status": "rejected", "exc": "NodeError", "error": joined}
            else:
                res = {"status": "rejected", "exc": None, "error": joined}
            rep = real_report(res)
            s3.cases += 1
            s3.nontrivial.add((kind, len(lead), pos))
            s3.count(rep[0] if rep else "nothing-logged")
            inp = {"file_text": text, "inserted": stmt, "at_line": pos, "status": rc}
            if rc == 0:
                s3.violate(inp, "a located error", "status 0", "the erroneous file is reported as assembled")
            elif rep is None or rep[0] != how:
                s3.violate(inp, (how, name, pos, stmt), rep, "the file API does not locate the error (or reports another kind)")
            elif not str(rep[1]).endswith(name) or rep[2] != pos or rep[4] != stmt or (how in ("scan", "parse") and rep[3] != col):
                s3.violate(inp, (name, pos, col if how in ("scan", "parse") else None, stmt), rep[1:], "file / line / column / quoted text reported through the file API differ from the statement in the file")
        # several included files with identical text: an error is located in the file the failing statement came from
        s5 = core.Stream("S4-identical-includes", "two or three included files with byte-identical text (copies at different paths), one of them included where a symbol it uses is defined and another where it is not (or the second copy made erroneous afterwards, in a second assembly of the same process): the reported file is the one the failing statement came from, with its line and text")
        for i in range(10 if tier == "quick" else 80):
            body = ["nop"] * rng.randrange(0, 4) + [".dw shared_zq"] + ["rts"]
            pos = body.index(".dw shared_zq")
            text = "\n".join(body) + "\n"
            names = [f"copy_a_{i}.s", f"copy_b_{i}.s"]
            impl.write_files(run_.tmp, {n: text for n in names}, None)
            if i % 2 == 0:
                # one program: first copy inside a block that defines the symbol, second copy where nothing defines it
                src = f"*=0x008000\n{{\nshared_zq = 1\n.include '{names[0]}'\n}}\n.include '{names[1]}'\n"
                r = impl.assemble(src, "low_rom", cwd=run_.tmp)
            else:
                # two assemblies: the first uses copy a successfully, the second fails inside copy b
                impl.assemble(f"*=0x008000\nshared_zq = 1\n.include '{names[0]}'\n", "low_rom", cwd=run_.tmp)
                src = f"*=0x008000\nnop\n.include '{names[1]}'\n"
                r = impl.assemble(src, "low_rom", cwd=run_.tmp)
            rep = real_report(r)
            s5.cases += 1
            s5.nontrivial.add((i % 2, pos))
            inp = {"src": src, names[0]: text, names[1]: text, "history": "copy a was included (successfully) before" }
            if rep is None:
                s5.violate(inp, "an undefined-symbol error located in " + names[1], "assembled", "an undefined symbol in an included file is not reported")
            elif rep[0] != "node" or rep[1] != names[1] or rep[2] != pos or rep[4] != ".dw shared_zq":
                s5.violate(inp, ("node", names[1], pos, ".dw shared_zq"), rep, "the error names another file / line than the included file the failing statement came from")
        s5.sample({"shape": "{ shared = 1 / .include 'copy_a.s' } / .include 'copy_b.s'   (identical texts)"})
        # the command line with -D definitions: locations still refer to the lines of the user's file
        s4 = core.Stream("S4-cli-defines", "an erroneous statement at a known line of a file assembled by the x816 command line with 0..3 -D NAME=VALUE definitions (used or unused by the program), both output formats: the reported file, zero-based line, column and quoted text are those of the statement in the user's file, whatever was defined on the command line")
        for i in range(10 if tier == "quick" else 120):
            kind, stmt, col, how = rng.choice([e for e in ERRS if e[0] not in ("unterminated-string-backslash",) and "\n" not in e[1] and e[3] != "parse"])
            ndef = rng.choice([0, 1, 2, 3, 3])
            defs = [(f"dz{k}", rng.randrange(0, 200)) for k in range(ndef)]
            pre = ["; c"] * rng.randrange(0, 4) + ["*=0x038000"] + [f".db dz{k}" for k in range(ndef) if rng.random() < 0.6] + ["nop"] * rng.randrange(0, 4)
            text = "\n".join(pre + [stmt, "rts"]) + "\n"
            pos = len(pre)
            name = f"cli_zq_{i}.s"
            rep_, data, announced, err = frontends.cli(text, run_.tmp, fmt=rng.choice([None, "ips", "sfc"]), defines=defs, name=name)
            msg = (err.split("ERROR - ", 1)[1] if "ERROR - " in err else err).rstrip("\n")
            if re.search(r"at\n.*?:\d+ ", msg, re.S):
                res = {"status": "rejected", "exc": "NodeError", "error": msg}
            else:
                res = {"status": "rejected", "exc": None, "error": msg}
            rep = real_report(res)
            s4.cases += 1
            s4.nontrivial.add((kind, ndef, pos))
            s4.count(f"defines:{ndef}")
            inp = {"file_text": text, "command": "x816 " + name + (" -D " + " ".join(f"{k}={v}" for k, v in defs) if defs else ""), "inserted": stmt, "at_line": pos}
            if rep_.startswith("status 0"):
                s4.violate(inp, "a located error", rep_, "the erroneous file is reported as assembled")
            elif rep is None or rep[0] != how:
                s4.violate(inp, (how, name, pos, stmt), (rep, err[-200:]), "the command line does not locate the error (or reports another kind)")
            elif not str(rep[1]).endswith(name) or rep[2] != pos or rep[4] != stmt or (how in ("scan", "parse") and rep[3] != col):
                s4.violate(inp, (name, pos, col if how in ("scan", "parse") else None, stmt), rep[1:], "file / line / column / quoted text reported by the command line differ from the statement in the user's file")
        s4.sample({"command": "x816 cli_zq_0.s -D dz0=1 dz1=2"})
        return [s, s2, s2b, s3, s4, s5]
    finally:
        run_.close()
