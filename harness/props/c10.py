"""C10 — see props/scoping.py (shared body of the twin-based properties)."""
from props import scoping


def run(ctx):
    return scoping.run_prop("C10", ctx)
