"""C15 — termination: scanner (S7), parser on token sequences (S6) and the whole pipeline (S4) under a
per-input watchdog, compared with the model (an `OUT-OF-FUEL` answer of the model means non-termination)."""
from __future__ import annotations

import itertools
import os

import astser
import core
import gen_program
import impl
import pipeline

hx = astser.hx
FRAGS = ["lda", "nop", "inc", ".b", ".w", ".l", " ", "\n", "#", "0x1F", "0b101", "12", "(", ")", ",x", ",Y", ",s", "[", "]",
         "'ab'", "'a\\'b'", "'x", ";c\n", "; c", "/*", "*/", "/**", "**/", "lab:", "x:=1", "x = 2", "*=", "@=", ".db", ".text",
         ".scope", ".macro", ".if", ".for", ".struct", ".include", "{", "}", "{{", "}}", "sc.x", "+", "-", "<<", ">>", "==", "!=", "$",
         "\t", "a", "0", "09", "0o7", "0x", "Nop", "LDA.W", "rts ; c", "rts ;", "\0", "é", ",", ":", "="]
TOKS = ["EOF", "COMMENT", "LABEL", "IDENTIFIER", "QUOTED_STRING", "OPERATOR", "LPAREN", "RPAREN", "SHARP", "RBRAKET", "LBRAKET",
        "RBRACE", "LBRACE", "ADDRESSING_MODE_INDEX", "OPCODE_SIZE", "OPCODE_NAKED", "OPCODE", "COMMA", "KEYWORD", "NUMBER", "STAR_EQ",
        "AT_EQ", "EQUAL", "ASSIGN", "DOUBLE_LBRACE", "DOUBLE_RBRACE", "BOOLEAN", "TYPE"]
VALS = {"KEYWORD": ["scope", "macro", "if", "for", "db", "struct", "else", "map", "include_ips", "text"], "IDENTIFIER": ["a", "else", "identifier", "mask"],
        "OPERATOR": ["+", "-", "~", "*", "=="], "NUMBER": ["1", "0x10", "08"], "OPCODE": ["lda", "bra"], "OPCODE_NAKED": ["nop"],
        "OPCODE_SIZE": ["b", "W", "q"], "ADDRESSING_MODE_INDEX": ["x", "Y", "s"], "QUOTED_STRING": ["'a'"], "LABEL": ["l"]}


def real_scan(state, text, timeout=5):
    from a816.parse.errors import ScannerException
    from a816.parse.scanner import Scanner
    from a816.parse.scanner_states import lex_expression, lex_initial
    sc = Scanner(lex_initial if state == "initial" else lex_expression)
    try:
        with impl.quiet(), core.watchdog(timeout):
            toks = sc.scan("f", text)
        return "ok " + " ".join(f"{t.type.name}:{hx(t.value)}:{t.position.line}:{t.position.column}" for t in toks) + " | " + (",".join(hx(l) for l in sc.file.lines) or "-")
    except core.Timeout:
        return "TIMEOUT"
    except ScannerException as e:
        return f"err {hx(str(e))} {e.position.line} {e.position.column} | " + (",".join(hx(l) for l in sc.file.lines) or "-")
    except Exception as e:  # noqa: BLE001
        return "exc " + type(e).__name__


def real_ptoks(seq, timeout=5):
    from a816.parse.errors import ParserSyntaxError
    from a816.parse.parser import Parser
    from a816.parse.parser_states import parse_initial
    from a816.parse.tokens import File, Position, Token, TokenType
    f = File("t")
    f.lines = [""]
    toks = [Token(TokenType[t], v, Position(0, 0, f)) for t, v in seq]
    try:
        with impl.quiet(), core.watchdog(timeout):
            ast = Parser(toks, parse_initial).parse()
        return "ok " + astser.ser_list(ast)
    except core.Timeout:
        return "TIMEOUT"
    except ParserSyntaxError as e:
        t = e.token
        if t.position is None:
            return "err parse-nopos"
        return f"err parse {hx('t')} 0 0 {t.type.name} {len(t.value)}"
    except RecursionError:
        return "exc RecursionError"
    except Exception as e:  # noqa: BLE001
        n = type(e).__name__
        return "exc " + {"FileNotFoundError": "OSError", "SyntaxError": "Exception", "ValueError": "Exception"}.get(n, n)


def mutants(rng, text, n):
    out = []
    for _ in range(n):
        k = rng.randrange(len(text) + 1)
        op = rng.random()
        if op < 0.35:
            out.append(text[:k])
        elif op < 0.6:
            j = min(len(text), k + rng.randrange(1, 12))
            out.append(text[:k] + text[j:])
        elif op < 0.8:
            j = min(len(text), k + rng.randrange(1, 12))
            out.append(text[:j] + text[k:])
        else:
            out.append(text[:k] + rng.choice(["'", "/*", "{", "(", ".", "\0", "\\"]) + text[k:])
    return out


def run(ctx):
    tier, seed = ctx["tier"], ctx["seed"]
    drv = core.Driver()
    rng = core.rng_for(seed, "c15")
    samples = [open(os.path.join(core.REPO, "tests", "samples", f), encoding="utf-8").read() for f in ("sample.s", "push_pull.s")]

    s1 = core.Stream("S7-scan", "strings: exhaustive to length 3 (4 in thorough) over a 36-symbol character alphabet, lexeme sequences, truncation/deletion/duplication/insertion mutants of the repository's sample sources and of generated programs, in both lexing states; the real scanner under a watchdog vs the model: identical tokens with positions, File.lines, or identical error with position — and the real scanner must return (the model never answers OUT-OF-FUEL); non-trivial = distinct (state, outcome class, length)")
    alpha = list("a0x1 \n\t;.,:='#()[]{}*/+-<>@!&|~bXld$\\\0")
    cases = []
    for n in range(0, 4 if tier == "quick" else 5):
        if n == 4:
            small = list("a0 \n;.'#(*/-l\0")
            cases += ["".join(t) for t in itertools.product(small, repeat=4)]
        else:
            cases += ["".join(t) for t in itertools.product(alpha, repeat=n)]
    for _ in range(4000 if tier == "quick" else 40000):
        cases.append("".join(rng.choice(FRAGS) for _ in range(rng.randrange(1, 10))))
    for smp in samples:
        cases += mutants(rng, smp, 150 if tier == "quick" else 1500)
    for _ in range(20 if tier == "quick" else 200):
        cases += mutants(rng, gen_program.generate(rng, drv)["src"], 10)
    for st in ("initial", "expression"):
        sub = cases if st == "initial" else cases[:len(cases) // 3]
        model = drv.ask([f"scan {st} {hx(c)}" for c in sub])
        timeouts = 0
        for c, m_ in zip(sub, model):
            if timeouts >= 8:
                s1.count("not-run-after-8-timeouts")
                continue
            # the first hang is given 5 s; once one is on record the later ones are cut short
            r = real_scan(st, c, timeout=5 if timeouts == 0 else 1)
            timeouts += r == "TIMEOUT"
            s1.cases += 1
            s1.nontrivial.add((st, r.split(" ")[0] + (r.split(" ")[1][:12] if r.startswith("err") else ""), min(len(c), 12)))
            s1.count(st + ":" + r.split(" ")[0])
            if r == "TIMEOUT":
                s1.violate({"state": st, "text": c}, "terminates", "no result within 5 s", "the scanner does not terminate on this input")
                if not m_.startswith("err OUT-OF-FUEL"):
                    s1.disagree({"state": st, "text": c}, m_[:120], r)
                continue
            if r != m_:
                s1.disagree({"state": st, "text": c}, m_[:200], r[:200])
    s1.sample({"text": cases[50], "state": "initial"})

    s2 = core.Stream("S6-tokens", "token sequences over the full token alphabet: exhaustive to length 3 (type level, representative values), random to length 30, fed to the real Parser under a watchdog vs the model parser: same AST or same error; the real parser must return; non-trivial = distinct (outcome, first token types)")
    seqs = []
    types = TOKS
    for n in (1, 2):
        for tt in itertools.product(types, repeat=n):
            seqs.append([(t, VALS.get(t, [""])[0]) for t in tt])
    if tier == "thorough":
        for tt in itertools.product(types, repeat=3):
            seqs.append([(t, VALS.get(t, [""])[0]) for t in tt])
    for _ in range(6000 if tier == "quick" else 60000):
        ln = rng.randrange(1, 30)
        seqs.append([(t, rng.choice(VALS.get(t, [""]))) for t in (rng.choice(types) for _ in range(ln))])
    model = drv.ask(["ptoks " + " ".join(f"{t}:{hx(v)}" for t, v in sq) for sq in seqs])
    timeouts = 0
    for sq, m_ in zip(seqs, model):
        if timeouts >= 8:
            s2.count("not-run-after-8-timeouts")
            continue
        r = real_ptoks(sq, timeout=5 if timeouts == 0 else 1)
        timeouts += r == "TIMEOUT"
        s2.cases += 1
        s2.nontrivial.add((r.split(" ")[0], tuple(t for t, _ in sq[:3])))
        s2.count(r.split(" ")[0] + (":" + r.split(" ")[1] if r.startswith("exc") else ""))
        if r == "TIMEOUT":
            s2.violate({"tokens": sq}, "terminates", "no result within 5 s", "the parser does not terminate on this token sequence")
            continue
        if r != m_:
            s2.disagree({"tokens": sq}, m_[:200], r[:200])
    s2.sample({"tokens": seqs[40], "model": model[40][:100]})

    s3 = core.Stream("S4-expansion", "whole pipeline under a watchdog: mutants of generated programs, unguarded and guarded recursive macros, self-including files, loops with empty / reversed / large bounds, unterminated constructs; the real assembler must return an output or an error; outcome class compared with the model")
    run_ = pipeline.Runner(drv)
    try:
        progs = []
        for _ in range(60 if tier == "quick" else 600):
            pr = gen_program.generate(rng, drv)
            for mt in mutants(rng, pr["src"], 3):
                progs.append(dict(pr, src=mt))
        fam = [
            ".macro r(n) {\n.db n\nr(n + 1)\n}\nr(0)\n",
            ".macro r(n) {\n.db n\n.if n {\nr(n - 1)\n}\n}\nr(40)\n",
            ".macro a() {\nb()\n}\n.macro b() {\na()\n}\na()\n",
            ".include 'self.s'\n",
            ".for i := 4, 0 {\n.db i\n}\n.for i := 0, -1 {\n}\ncount := 0\n.for i := 1, count {\nnop\n}\n.db 1\n",
            ".for i := 0, 300 {\n.for j := 0, 3 {\n.db i & 0xff\n}\n}\n",
            "/* never closed\nnop\n", "lda 'abc\n", ".ascii 'abc", "{\n{\n{\nnop\n", ".struct h {\n; c\n}\n", ".struct h { /* x */ }\n", ".struct h {\n; never closed",
            "rts ; done", "sei\nclc\nxce ; native", "nop\t;", "x = (((((1)))))\n", "x = " + "(" * 200 + "1" + ")" * 200 + "\n",
            ".macro m(a\n", "m(1,\n", ".if 1 {\n} else\n", ".db " + ",".join(["1"] * 3000) + "\n",
        ]
        fam += [".table 't.tbl'\n{\n{\n.text 'ab'\n}\n}\n", "{\n.text 'a'\n}\n", ".text 'a'\n", "{\n{\n{\n.text 'ba'\n}\n}\n}\n",
                ".table 't.tbl'\n.macro t() {\n.text 'ab'\n}\n{\nt()\nt()\n}\n", ".scope s {\n.for i := 0, 2 {\n.text 'b'\n}\n}\n"]
        for src in fam:
            progs.append({"src": src, "rom": "low_rom", "files": {"self.s": ".include 'self.s'\n", "t.tbl": "01=a\n02=b\n"}, "bins": {}, "hist": {}})
        # .text strings with bracket markup that is opened and never closed, closed and never opened, cut short ...
        pieces = ["[", "]", "[0x", "[0x4", "[0x41]", "[0xZZ]", "[wait", "[tag]", "[t", "a", "b", "ab", " ", "\\", "?", "[[", "]]", "[]", "[0x]", "0x41]"]
        tables = ["01=a\n02=b\n", "01=a\n02=b\n10=ab\n20=[tag]\n", "30=[\n31=]\n01=a\n", "01=a\n0203=[t\n"]
        for _ in range(40 if tier == "quick" else 600):
            txt = "".join(rng.choice(pieces) for _ in range(rng.randrange(1, 6)))
            src = ".table 't.tbl'\n*=0x008000\n" + rng.choice(["", "{\n"]) + f".text '{txt}'\nafter:\n.dw after\n"
            if "{\n" in src:
                src += "}\n"
            progs.append({"src": src, "rom": "low_rom", "files": {"t.tbl": rng.choice(tables)}, "bins": {}, "hist": {}})
        # table files with lines that are not entries: long runs of hex digits (checksums), rulers, long blank runs
        junk = ["0123456789abcdef0123456789abcdef", "d41d8cd98f00b204e9800998ecf8427e d41d8cd98f00b204e9800998ecf8427e", "a" * 40, "F" * 64 + " ; sha",
                "=" * 60, "-" * 80, " " * 70 + "x", "00" * 24 + "!", "0123456789ABCDEF" * 3 + "=", "1f" * 20 + ":", ("ab " * 20).strip()]
        for k in range(len(junk) if tier == "quick" else 3 * len(junk)):
            tbl = rng.choice(["", "; table\n"]) + junk[k % len(junk)] + "\n01=a\n02=b\n" + (junk[(k * 7 + 3) % len(junk)] + "\n" if k % 2 else "")
            progs.append({"src": ".table 't.tbl'\n*=0x008000\n.text 'ab'\nafter:\n.dw after\n", "rom": "low_rom", "files": {"t.tbl": tbl}, "bins": {}, "hist": {}})
        # deep nesting: the work per reference must not explode with the number of enclosing scopes
        for depth in ((30, 45) if tier == "quick" else (25, 30, 40, 60, 90)):
            progs.append({"src": "top := 7\nlab:\n" + "{\n" * depth + ".db top\n.dw lab\n" + "}\n" * depth, "rom": "low_rom", "files": {}, "bins": {}, "hist": {}})
            progs.append({"src": f"top := 7\n.macro rec(n) {{\n.if n {{\nrec(n - 1)\n}} else {{\n.db top\n}}\n}}\nrec({depth})\n", "rom": "low_rom", "files": {}, "bins": {}, "hist": {}})
            progs.append({"src": "top = 7\n" + "".join(f".scope s{i} {{\n" for i in range(depth)) + "lda.w top\n" + "}\n" * depth, "rom": "low_rom", "files": {}, "bins": {}, "hist": {}})
            progs.append({"src": "top := 3\n" + "".join(f".for i{i} := 0, 1 {{\n" for i in range(depth)) + ".db top\n" + "}\n" * depth, "rom": "low_rom", "files": {}, "bins": {}, "hist": {}})
        # output through the real IPS writer of programs whose blocks end at, start at or cross the offset that reads as "EOF"
        # (reachable through a user .map or an included record): an output or a refusal, never a hang
        import io as _io
        from a816.program import Program as _P
        from a816.writers import IPSWriter as _W
        for k in range(10 if tier == "quick" else 60):
            n = rng.randrange(1, 40)
            start = 0x454F46 - rng.choice([n, n - 1, n + 1, 1, 0, n // 2, 16, 0x200 + n, 0x200 + n - 1, 0x1FF])
            copier = k % 3 == 0
            wsrc = (".map identifier=1 bank_range=0x00,0xbf addr_range=0x8000,0xffff mask=0x8000\n"
                    f"*=0x{((start // 0x8000) << 16) | (0x8000 + start % 0x8000):06x}\n.db " + ", ".join(str(rng.randrange(256)) for _ in range(n)) + "\n")
            try:
                with impl.quiet(), core.watchdog(10):
                    w_ = _W(_io.BytesIO(), copier)
                    w_.begin()
                    try:
                        _P().assemble_string_with_emitter(wsrc, "w.s", w_)
                        w_.end()
                    except core.Timeout:
                        raise
                    except Exception:  # noqa: BLE001
                        pass
                s3.cases += 1
                s3.count("ips-writer-near-EOF-offset")
            except core.Timeout:
                s3.cases += 1
                s3.violate({"src": wsrc, "output": "IPSWriter" + (" with copier header" if copier else "")}, "an output or a reported error", "no result within 10 s",
                           "writing the assembled blocks as an IPS patch does not terminate")
                break
        # included patch files that stop anywhere (no EOF marker, inside a record header, inside EO…)
        full = b"PATCH" + b"\x00\x00\x10\x00\x02\xaa\xbb" + b"\x00\x00\x20\x00\x00\x00\x03\xcc" + b"EOF"
        for cut in sorted(set([0, 3, 5, 6, 8, 10, 12, 14, 17, 20, len(full) - 2, len(full) - 1, len(full)] + [rng.randrange(len(full)) for _ in range(4)])):
            progs.append({"src": "*=0x008000\n.db 1\n.include_ips 'cut.ips', 0\n.db 2\n", "rom": "low_rom", "files": {}, "bins": {"cut.ips": full[:cut]}, "hist": {}})
        import gen_wild
        for _ in range(150 if tier == "quick" else 3000):
            progs.append(gen_wild.generate(rng, drv))
        for pr, r, m in run_.run(progs, trace=False):
            s3.cases += 1
            s3.count(r["status"] + (":" + str(r["exc"]) if r["status"] == "rejected" else ""))
            s3.nontrivial.add((r["status"], r.get("exc"), pr["src"][:20]))
            if r["status"] == "timeout":
                s3.violate({"src": pr["src"][:2000], "rom": pr["rom"]}, "an output or a reported error", "no result within 20 s", "the assembler does not terminate on this input")
                continue
            c, mm = impl.canon(r), impl.canon_model(m)
            if mm in ("raised RecursionError", "raised OUT-OF-FUEL") or c in ("raised RecursionError", "raised OSError"):
                # nesting budgets differ (Python frames / open files vs the model's budget): only rejection is compared
                if c.startswith("ok") != mm.startswith("ok"):
                    s3.disagree({"src": pr["src"][:500]}, mm[:200], c[:200])
                continue
            if not impl.same_outcome(c, mm):
                s3.disagree({"src": pr["src"][:2000], "rom": pr["rom"]}, mm[:300], c[:300])
        s3.sample({"src": fam[1]})
    finally:
        run_.close()
    return [s1, s2, s3]
