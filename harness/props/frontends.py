"""Helpers to run the real front ends: file APIs in-process, x816 command line as a subprocess."""
from __future__ import annotations

import contextlib
import io
import logging
import os
import subprocess
import sys

import core
import impl


class LogCapture(logging.Handler):
    def __init__(self):
        super().__init__()
        self.records = []

    def emit(self, record):
        self.records.append(record.getMessage())


def file_api(kind, src, tmp, mapping=None, copier=False, defines=None, name="prog.s"):
    """Program.assemble / Program.assemble_as_patch on a file; returns (reported, output bytes or None, announced, labels)"""
    from a816.program import Program
    path = os.path.join(tmp, name)
    if isinstance(src, bytes):
        with open(path, "wb") as f:
            f.write(src)
    else:
        with open(path, "w", encoding="utf-8") as f:
            f.write(src)
    out = os.path.join(tmp, "out.bin")
    if os.path.exists(out):
        os.remove(out)
    old = os.getcwd()
    os.chdir(tmp)
    cap = LogCapture()
    logging.disable(logging.NOTSET)
    loggers = [logging.getLogger("x816"), logging.getLogger("a816")]
    for lg in loggers:
        lg.addHandler(cap)
        lg.setLevel(logging.INFO)
        lg.propagate = False
    try:
        with contextlib.redirect_stdout(io.StringIO()), contextlib.redirect_stderr(io.StringIO()), core.watchdog(30):
            p = None
            try:
                p = Program()
                for k, v in defines or []:
                    p.resolver.current_scope.add_symbol(k, v)
                if kind == "assemble":
                    rc = p.assemble(path, out, mapping) if mapping is not None else p.assemble(path, out)
                else:
                    rc = p.assemble_as_patch(path, out, mapping, copier)
                rep = f"status {rc} " + ("1" if any("Success" in m for m in cap.records) else "0")
            except core.Timeout:
                raise
            except BaseException as e:  # noqa: BLE001
                if isinstance(e, (KeyboardInterrupt, SystemExit)):
                    raise
                rep = "raised"
                rc = None
        data = open(out, "rb").read() if os.path.exists(out) else None
        return rep, data, any("Success" in m for m in cap.records), impl.labels_of(p.resolver) if p is not None else []
    finally:
        for lg in loggers:
            lg.removeHandler(cap)
            lg.propagate = True
        logging.disable(logging.CRITICAL)
        os.chdir(old)


def cli(src, tmp, fmt=None, mapping=None, copier=False, defines=None, name="prog.s", timeout=60):
    """x816 command line in a subprocess (cwd = tmp, package taken from the /repo working tree)"""
    path = os.path.join(tmp, name)
    if isinstance(src, bytes):
        with open(path, "wb") as f:
            f.write(src)
    else:
        with open(path, "w", encoding="utf-8") as f:
            f.write(src)
    out = os.path.join(tmp, "cli_out.bin")
    if os.path.exists(out):
        os.remove(out)
    args = [core.PY, "-c", "import sys; sys.argv[0]='x816'; from a816.cli import cli_main; cli_main()", "-o", out]
    if fmt is not None:
        args += ["-f", fmt]
    if mapping is not None:
        args += ["-m", mapping]
    if copier:
        args += ["--copier-header"]
    args += [name]
    if defines:
        args += ["-D"] + [f"{k}={v}" for k, v in defines]
    env = dict(os.environ)
    env["PYTHONPATH"] = core.REPO
    try:
        r = subprocess.run(args, cwd=tmp, capture_output=True, text=True, timeout=timeout, env=env)
    except subprocess.TimeoutExpired:
        return "timeout", None, False, ""
    data = open(out, "rb").read() if os.path.exists(out) else None
    announced = "Success" in (r.stderr + r.stdout)
    return f"status {r.returncode} {1 if announced else 0}", data, announced, r.stderr[-400:]
