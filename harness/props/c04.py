"""C04 — address mapping laws: correspondence (model vs code) and the Spec oracle on the real code."""
from __future__ import annotations

import multiprocessing as mp

import core
import impl

M = 2305843009213693951
OFFS = [0, 1, 0x7FFE, 0x7FFF, 0x8000, 0x8001, 0xFFFE, 0xFFFF]


def hstep(h, code):
    return (h * 1000003 + code + 1) % M


def _bank_hash(args):
    busname, bank, n = args
    bus = impl.bus_of(busname)
    h = 0
    lo = bank << 16
    if n is None:
        for a in range(lo, lo + 0x10000):
            h = hstep(h, impl.phys_code(bus, a))
    else:
        for a in range(lo, lo + 0x10000):
            h = hstep(h, impl.add_code(bus, a, n))
    return h


def spec_bank(drv, busname, banks):
    ans = drv.ask([f"spec.bank {busname} {b}" for b in banks])
    out = {}
    for b, a in zip(banks, ans):
        w = a.split()
        out[b] = None if w[0] == "none" else ("ram",) if w[0] == "ram" else ("rom", int(w[1]), int(w[2]), int(w[3]))
    return out


def run(ctx):
    tier, seed = ctx["tier"], ctx["seed"]
    drv = core.Driver()
    rng = core.rng_for(seed, "c04")
    streams = []

    # ---------------- S1a / S1b: boundary + random addresses on the two built-in buses -------------
    s1 = core.Stream("S1-phys", "Bus.get_address(a).physical on boundary/random addresses of every bank (-1..300) of both built-in buses vs model and vs Spec.phys; non-trivial = distinct (bus, bank kind, in/out of window) classes")
    s2 = core.Stream("S1-add", "(Address + n).logical_value for boundary/random increments vs model; oracle: offset grows by n, same range, in window, when the Spec address of offset+n stays in the range; non-trivial = distinct (bus, range, crosses-bank?) classes")
    nrand = 6 if tier == "quick" else 40
    for busname in ("low", "high"):
        bus = impl.bus_of(busname)
        banks = list(range(0, 301))
        kinds = spec_bank(drv, busname, banks)
        addrs = [-1, -0x10000]
        for b in banks:
            for o in OFFS:
                addrs.append((b << 16) + o)
            for _ in range(nrand):
                addrs.append((b << 16) + rng.randrange(0x10000))
        model = drv.ask([f"phys {busname} {a}" for a in addrs])
        spec = drv.ask([f"spec.phys {busname} {a}" for a in addrs])
        for a, m, sp in zip(addrs, model, spec):
            code = impl.phys_code(bus, a)
            got = "err" if code == 0 else "none" if code == 1 else f"some {(code - 4) // 2}" if code % 2 == 0 else f"some -{(code - 5) // 2}"
            s1.cases += 1
            if got != m:
                s1.disagree({"bus": busname, "addr": a}, m, got)
            k = kinds.get(a >> 16) if a >= 0 else None
            inwin = k is not None and (k[0] == "ram" or (a & 0xFFFF) >= 0x10000 - k[3])
            s1.nontrivial.add((busname, k[0] if k else "unmapped", inwin))
            s1.count(f"{busname}:{k[0] if k else 'unmapped'}:{'in' if inwin else 'below'}-window")
            if (k is None or inwin) and got != sp:
                s1.violate({"bus": busname, "addr": hex(a) if a >= 0 else a}, sp, got,
                           "file offset of a logical address differs from (bank - first bank) x size + position in window")
        s1.sample({"bus": busname, "addr": hex(addrs[40]), "model": model[40], "spec": spec[40]})
        # increments
        ops, meta = [], []
        for a in addrs:
            if a < 0:
                continue
            k = kinds.get(a >> 16)
            if k is None:
                incs = [0, 1]
            else:
                size = k[3] if k[0] == "rom" else 0x10000
                to_end = 0x10000 - (a & 0xFFFF)
                incs = {0, 1, 2, to_end - 1, to_end, to_end + 1, size, size + 1, 0x10000, rng.randrange(0x30000)}
                incs = sorted(i for i in incs if i >= 0)
                if tier == "quick":
                    incs = incs[:5] + incs[-2:]
            for n in incs:
                ops.append(f"add {busname} {a} {n}")
                meta.append((a, n, k))
        model = drv.ask(ops)
        spec_ops, spec_idx = [], []
        for i, (a, n, k) in enumerate(meta):
            if k and k[0] == "rom" and (a & 0xFFFF) >= 0x10000 - k[3]:
                p = impl.phys_code(bus, a)
                if p >= 4 and p % 2 == 0:
                    spec_ops.append(f"spec.address {k[1]} {k[2]} {k[3]} {(p - 4) // 2 + n}")
                    spec_idx.append(i)
        spec_ans = dict(zip(spec_idx, drv.ask(spec_ops)))
        for i, ((a, n, k), m) in enumerate(zip(meta, model)):
            code = impl.add_code(bus, a, n)
            got = "err" if code == 0 else f"ok {code - 1}"
            s2.cases += 1
            if got != m:
                s2.disagree({"bus": busname, "addr": a, "n": n}, m, got)
            if i in spec_ans:
                exp = int(spec_ans[i])
                stays = kinds.get(exp >> 16) == k
                s2.nontrivial.add((busname, k[1], (exp >> 16) != (a >> 16), stays))
                s2.count(f"{busname}:rom:{'cross' if (exp >> 16) != (a >> 16) else 'same'}-bank:{'stays' if stays else 'leaves'}")
                if stays:
                    if got != f"ok {exp}":
                        s2.violate({"bus": busname, "addr": hex(a), "n": n}, f"ok {exp}", got,
                                   "advancing by n does not yield the address whose file offset is n larger in the same range")
                    else:
                        p0 = impl.phys_code(bus, a)
                        p1 = impl.phys_code(bus, exp)
                        if p1 != p0 + 2 * n:
                            s2.violate({"bus": busname, "addr": hex(a), "n": n}, f"offset+{n}", f"codes {p0}->{p1}", "offset of advanced address is not n larger")
            elif k and k[0] == "ram":
                s2.count(f"{busname}:ram")
                tgt = kinds.get((a + n) >> 16)
                if tgt is not None and got != f"ok {a + n}":
                    s2.violate({"bus": busname, "addr": hex(a), "n": n}, f"ok {a + n}", got, "RAM address advance is not a + n")
        s2.sample({"op": ops[100], "model": model[100]})
        # add_add / add_zero observed on the real code
        for _ in range(300 if tier == "quick" else 5000):
            b = rng.choice([b for b, k in kinds.items() if k and k[0] == "rom"])
            k = kinds[b]
            a = (b << 16) + rng.randrange(0x10000 - k[3], 0x10000)
            m_, n_ = rng.randrange(0x12000), rng.randrange(0x12000)
            try:
                x = ((bus.get_address(a) + m_) + n_).logical_value
            except Exception:
                x = None
            try:
                y = (bus.get_address(a) + (m_ + n_)).logical_value
            except Exception:
                y = None
            try:
                z = (bus.get_address(a) + 0).logical_value
            except Exception:
                z = None
            s2.cases += 1
            if x is not None and y is not None and x != y:
                s2.violate({"bus": busname, "addr": hex(a), "m": m_, "n": n_}, y, x, "(a+m)+n != a+(m+n)")
            if z != a:
                s2.violate({"bus": busname, "addr": hex(a)}, a, z, "a+0 != a for an in-window address")
    streams += [s1, s2]

    # ---------------- Program.get_physical_address: the public lookup under each ROM type --------------
    s7 = core.Stream("S1-program-api", "Program.get_physical_address(a) under every ROM type (low, low2, high) and after a program declared its own .map: the Spec offset of in-window ROM addresses, an error for RAM / unmapped addresses")
    from a816.cpu.cpu_65c816 import RomType
    from a816.program import Program
    for romname, busname in (("low_rom", "low"), ("low_rom_2", "low"), ("high_rom", "high")):
        kinds = spec_bank(drv, busname, list(range(256)))
        addrs = [(b << 16) + o for b in range(0, 256, 5) for o in (0, 0x7FFF, 0x8000, 0xFFFF, rng.randrange(0x10000))]
        spec = drv.ask([f"spec.phys {busname} {a}" for a in addrs])
        with impl.quiet():
            p_ = Program()
            p_.resolver.rom_type = RomType[romname]
        for a, sp in zip(addrs, spec):
            try:
                with impl.quiet():
                    got = f"some {p_.get_physical_address(a)}"
            except Exception:  # noqa: BLE001
                got = "err"
            s7.cases += 1
            k = kinds.get(a >> 16)
            inwin = k is not None and k[0] == "rom" and (a & 0xFFFF) >= 0x10000 - k[3]
            s7.nontrivial.add((romname, k[0] if k else "unmapped", inwin))
            exp = sp if inwin else "err" if (k is None or k[0] == "ram") else None
            if exp is not None and got != exp:
                s7.violate({"rom_type": romname, "addr": hex(a)}, exp, got, "Program.get_physical_address differs from the mapped file offset (or does not refuse a RAM / unmapped address)")
    s7.sample({"rom_type": "low_rom", "addr": "0x018000", "expected": "some 32768"})
    streams.append(s7)
    # ---------------- the spelling of a .map directive (attributes over several lines, any order) ----------------
    s8 = core.Stream("S1-map-spelling", "a user .map written on one line and the same attributes spread over several lines / in another order, assembled in fresh Programs: the resulting bus gives the same offset / refusal / writable flag for sampled addresses (RAM ranges stay RAM); non-trivial = distinct (attribute order, line breaks)")
    from a816.writers import Writer

    class _W(Writer):
        def begin(self):
            pass

        def end(self):
            pass

        def write_block_header(self, block, block_address):
            pass

        def write_block(self, block, block_address):
            pass

    def bus_view(src_):
        with impl.quiet():
            p2 = Program()
            try:
                err_ = p2.assemble_string_with_emitter(src_, "m.s", _W())
            except Exception:  # noqa: BLE001  (a refusal, however it is reported, is not a different bus)
                return ("rejected",)
            if err_:
                return ("rejected",)
            bus = p2.resolver.get_bus()
            out = []
            for a_ in (0x7E2000, 0x7F0000, 0x008000, 0x108123, 0x3FFFFF, 0x400000, 0xFE2000):
                try:
                    ad = bus.get_address(a_)
                    out.append((ad.physical, bool(ad.writable)))
                except Exception as e_:  # noqa: BLE001
                    out.append(("err", type(e_).__name__))
            return tuple(out)
    for i in range(24 if tier == "quick" else 300):
        ram = [("identifier", "2"), ("bank_range", "0x7e,0x7f"), ("addr_range", "0,0xffff"), ("mask", "0x10000"), ("writable", "1")]
        rom = [("identifier", "1"), ("bank_range", "0x00,0x3f"), ("addr_range", "0x8000,0xffff"), ("mask", "0x8000")]
        if rng.random() < 0.4 and i % 3 != 0:
            ram.append(("mirror_bank_range", "0xfe,0xff"))
        one = ".map " + " ".join(f"{k}={v}" for k, v in rom) + "\n.map " + " ".join(f"{k}={v}" for k, v in ram) + "\n*=0x008000\n.db 1\n"
        order = ram[:1] + rng.sample(ram[1:], len(ram) - 1) if rng.random() < 0.5 else list(ram)
        seps = [rng.choice([" ", " ", "\n", "\n    ", "  \n\t"]) for _ in order]
        if i % 3 == 0:
            # exactly one line break, in front of one attribute (every attribute in turn)
            order = [x for x in ram if x[0] != "mirror_bank_range"]
            k_ = 1 + (i // 3) % (len(order) - 1)
            seps = [("\n  " if j + 1 == k_ else " ") for j in range(len(order))]
        multi = ".map " + " ".join(f"{k}={v}" for k, v in rom) + "\n.map " + "".join(f"{k}={v}{sep}" for (k, v), sep in zip(order, seps)).rstrip() + "\n*=0x008000\n.db 1\n"
        a_, b_ = bus_view(one), bus_view(multi)
        s8.cases += 1
        s8.nontrivial.add((tuple(k for k, _ in order), tuple("nl" if "\n" in x else "sp" for x in seps)))
        if a_ == ("rejected",):
            s8.violate({"src": one}, "assembled", "rejected", "a plain single-line .map configuration is rejected")
        elif b_ != a_ and b_ != ("rejected",):
            s8.violate({"one_line": one, "several_lines": multi}, a_, b_, "the same .map attributes spread over several lines give a different bus (offset / refusal / writable flag)")
        elif b_ == ("rejected",):
            s8.count("multi-line-rejected")
    s8.sample({"several_lines": ".map identifier=2 bank_range=0x7e,0x7f addr_range=0,0xffff mask=0x10000\n writable=1"})
    streams.append(s8)

    # ---------------- S1c: user .map configurations ------------------------------------------------
    s3 = core.Stream("S1-usermap", "random .map configurations (disjoint and overlapping bank ranges, mirrors, 32K/64K, RAM) built through the real Bus.map vs model; oracle on disjoint configs: Spec.offset of the declared range; non-trivial = distinct configurations")
    nconf = 40 if tier == "quick" else 600
    for ci in range(nconf):
        overlapping = ci % 4 == 3
        dirs = []
        used = set()
        for di in range(rng.randrange(1, 4)):
            lo = rng.randrange(0, 0xF0)
            hi = min(0xFF, lo + rng.randrange(0, 0x30))
            mask = rng.choice([0x8000, 0x10000])
            ram = rng.random() < 0.25
            mirror = None
            if rng.random() < 0.5:
                mlo = rng.randrange(0, 0xF0)
                # the mirror range usually has as many banks as the primary range; sometimes more, sometimes fewer
                mirror = (mlo, min(0xFF, mlo + (hi - lo) + rng.choice([0, 0, 0, hi - lo + 1, 7, -min(2, hi - lo)])))
            rngs = [range(lo, hi + 1)] + ([range(mirror[0], mirror[1] + 1)] if mirror else [])
            if not overlapping and any(b in used for r in rngs for b in r):
                continue
            if not overlapping and mirror and set(rngs[0]) & set(rngs[1]):
                continue
            for r in rngs:
                used.update(r)
            dirs.append((str(di + 1), lo, hi, mask, ram, mirror))
        if not dirs:
            continue
        desc = "user:" + ";".join(f"{i},{lo},{hi},{mask},{1 if ram else 0},{m[0] if m else '-'},{m[1] if m else '-'}" for i, lo, hi, mask, ram, m in dirs)
        bus = impl.user_bus(dirs)
        s3.nontrivial.add(desc)
        s3.count("overlapping" if overlapping else "disjoint")
        addrs = []
        for _, lo, hi, mask, ram, m in dirs:
            for b in {lo, hi, (lo + hi) // 2, hi + 1, max(lo - 1, 0)} | ({m[0], m[1]} if m else set()):
                for o in (0, 0x7FFF, 0x8000, 0xFFFF, rng.randrange(0x10000)):
                    addrs.append((b << 16) + o)
        ops = [f"phys {desc} {a}" for a in addrs] + [f"add {desc} {a} {n}" for a in addrs for n in (0, 1, 0x8000, 0x12345)]
        model = drv.ask(ops)
        impl_ans = []
        for a in addrs:
            c = impl.phys_code(bus, a)
            impl_ans.append("err" if c == 0 else "none" if c == 1 else f"some {(c - 4) // 2}" if c % 2 == 0 else f"some -{(c - 5) // 2}")
        for a in addrs:
            for n in (0, 1, 0x8000, 0x12345):
                c = impl.add_code(bus, a, n)
                impl_ans.append("err" if c == 0 else f"ok {c - 1}")
        for op, m_, g in zip(ops, model, impl_ans):
            s3.cases += 1
            if m_ != g:
                s3.disagree({"op": op}, m_, g)
        if not overlapping:
            # oracle: declared range formula for in-window ROM addresses
            for a, g in zip(addrs, impl_ans):
                b = a >> 16
                for _, lo, hi, mask, ram, m in dirs:
                    for (first, last) in [(lo, hi)] + ([(m[0], min(m[1], m[0] + hi - lo))] if m else []):
                        if first <= b <= last and (a & 0xFFFF) >= 0x10000 - mask:
                            exp = "none" if ram else f"some {(b - first) * mask + (a & 0xFFFF) - (0x10000 - mask)}"
                            if g != exp:
                                s3.violate({"map": desc, "addr": hex(a)}, exp, g, "user .map: offset formula / RAM / mirror law broken")
            # RAM advance adds n (whatever the declared bank size of the RAM mapping)
            for i, a in enumerate(addrs):
                for _, lo, hi, mask, ram, m in dirs:
                    for (first, last) in [(lo, hi)] + ([m] if m else []):
                        if ram and first <= (a >> 16) <= last:
                            for j, n in enumerate((0, 1, 0x8000, 0x12345)):
                                ga = impl_ans[len(addrs) + i * 4 + j]
                                if first <= ((a + n) >> 16) <= last and ga != f"ok {a + n}":
                                    s3.violate({"map": desc, "addr": hex(a), "n": n}, f"ok {a + n}", ga, "advancing a RAM address of a user mapping does not add n")
        if ci < 2:
            s3.sample({"config": desc, "op": ops[0], "model": model[0]})
    streams.append(s3)

    # ---------------- S1d: map / unmap sequences on an editable bus ------------------------------------
    s6 = core.Stream("S1-map-unmap", "sequences of Bus.map and Bus.unmap on an editable bus (overlapping bank ranges where a later mapping owns the overlap, mirrors, RAM over ROM as in the built-in HiROM bus; unmap of the earlier / later / a missing mapping) vs model; oracle: a bank whose most recent covering directive is still mapped follows that mapping (ROM: declared-range formula, mirror = primary, RAM: no offset, +n), a bank covered by no remaining mapping is rejected; non-trivial = distinct sequences")
    for ci in range(40 if tier == "quick" else 500):
        seq = []      # ("map", ident, lo, hi, mask, ram, mirror) | ("unmap", ident)
        live = {}
        for di in range(rng.randrange(2, 5)):
            ident = str(di + 1)
            if seq and rng.random() < 0.5:
                # overlap the previous mapping's upper banks (RAM 7E-7F on top of ROM 40-7F)
                plo, phi = seq[-1][2], seq[-1][3]
                lo = rng.randrange(plo, phi + 1)
                hi = min(0xFF, max(lo, phi + rng.randrange(-2, 3)))
            else:
                lo = rng.randrange(0, 0xF0)
                hi = min(0xFF, lo + rng.randrange(0, 0x40))
            mask = rng.choice([0x8000, 0x10000])
            ram = rng.random() < 0.35
            mirror = None
            if rng.random() < 0.3:
                mlo = rng.randrange(0, 0xF0)
                mirror = (mlo, min(0xFF, mlo + (hi - lo)))
            seq.append(("map", ident, lo, hi, mask, ram, mirror))
        maps = list(seq)
        for _ in range(rng.randrange(1, 3)):
            victim = rng.choice([m[1] for m in maps] + ["9"])
            seq.insert(rng.randrange(1, len(seq) + 1), ("unmap", victim))
        desc = "user:" + ";".join((f"u,{d[1]}" if d[0] == "unmap" else f"{d[1]},{d[2]},{d[3]},{d[4]},{1 if d[5] else 0},{d[6][0] if d[6] else '-'},{d[6][1] if d[6] else '-'}") for d in seq)
        try:
            bus = impl.user_bus([("unmap", d[1]) if d[0] == "unmap" else d[1:] for d in seq])
        except Exception as e:  # noqa: BLE001
            s6.disagree({"sequence": desc}, "a bus", f"{type(e).__name__}: {e}", "building the bus raised")
            continue
        # Spec: owner of each bank = the most recent directive covering it; alive unless unmapped afterwards
        owner = {}
        for k, d in enumerate(seq):
            if d[0] == "map":
                _, ident, lo, hi, mask, ram, mirror = d
                for b in range(lo, hi + 1):
                    owner[b] = (k, lo, mask, ram)
                if mirror:
                    for b in range(mirror[0], mirror[1] + 1):
                        owner[b] = (k, mirror[0], mask, ram)
        dead = set()
        covered_alive = set()
        for k, d in enumerate(seq):
            if d[0] == "unmap":
                for k2, d2 in enumerate(seq[:k]):
                    if d2[0] == "map" and d2[1] == d[1]:
                        dead.add(k2)
        for k, d in enumerate(seq):
            if d[0] == "map" and k not in dead:
                covered_alive.update(range(d[2], d[3] + 1))
                if d[6]:
                    covered_alive.update(range(d[6][0], d[6][1] + 1))
        banks = set()
        for d in seq:
            if d[0] == "map":
                banks.update({d[2], d[3], (d[2] + d[3]) // 2, min(0xFF, d[3] + 1), max(0, d[2] - 1)})
                if d[6]:
                    banks.update(d[6])
        addrs = [(b << 16) + o for b in sorted(banks) for o in (0, 0x7FFF, 0x8000, 0xFFFF, rng.randrange(0x10000))]
        incs = (0, 1, 0x123)
        ops = [f"phys {desc} {a}" for a in addrs] + [f"add {desc} {a} {n}" for a in addrs for n in incs]
        model = drv.ask(ops)
        impl_ans = []
        for a in addrs:
            c = impl.phys_code(bus, a)
            impl_ans.append("err" if c == 0 else "none" if c == 1 else f"some {(c - 4) // 2}" if c % 2 == 0 else f"some -{(c - 5) // 2}")
        for a in addrs:
            for n in incs:
                c = impl.add_code(bus, a, n)
                impl_ans.append("err" if c == 0 else f"ok {c - 1}")
        s6.nontrivial.add(desc)
        for op, m_, g in zip(ops, model, impl_ans):
            s6.cases += 1
            if m_ != g:
                s6.disagree({"op": op}, m_, g)
        for i, a in enumerate(addrs):
            b = a >> 16
            g = impl_ans[i]
            o = owner.get(b)
            if o is not None and o[0] not in dead:
                _, first, mask, ram = o
                if (a & 0xFFFF) >= 0x10000 - mask:
                    exp = "none" if ram else f"some {(b - first) * mask + (a & 0xFFFF) - (0x10000 - mask)}"
                    s6.count("oracle:live-bank")
                    if g != exp:
                        s6.violate({"sequence": desc, "addr": hex(a)}, exp, g, "a bank whose mapping is still in place does not translate by that mapping after an unmap of another one")
                    if ram:
                        for j, n in enumerate(incs):
                            ga = impl_ans[len(addrs) + i * len(incs) + j]
                            if (a + n) >> 16 == b and ga != f"ok {a + n}":
                                s6.violate({"sequence": desc, "addr": hex(a), "n": n}, f"ok {a + n}", ga, "advancing a RAM address does not add n")
            elif b not in covered_alive:
                s6.count("oracle:unmapped-bank")
                if g != "err":
                    s6.violate({"sequence": desc, "addr": hex(a)}, "rejected", g, "a bank that no remaining mapping covers is not rejected")
        # the same bus object used *while* it is edited: after every directive the probe addresses translate as the bus
        # built from that prefix of the sequence does (nothing remembered from before the edit)
        if ci % 2 == 0:
            from a816.cpu.mapping import Bus
            live_bus = Bus()
            probes = addrs[:: max(1, len(addrs) // 12)]
            for k, d in enumerate(seq):
                try:
                    if d[0] == "unmap":
                        live_bus.unmap(d[1])
                    else:
                        kw = {"writeable": 1} if d[5] else {}
                        live_bus.map(d[1], (d[2], d[3]), (0, 0xFFFF), d[4], mirror_bank_range=d[6], **kw)
                except Exception as e:  # noqa: BLE001
                    s6.disagree({"sequence": desc, "step": k}, "ok", f"{type(e).__name__}")
                    break
                pdesc = "user:" + ";".join((f"u,{x[1]}" if x[0] == "unmap" else f"{x[1]},{x[2]},{x[3]},{x[4]},{1 if x[5] else 0},{x[6][0] if x[6] else '-'},{x[6][1] if x[6] else '-'}") for x in seq[:k + 1])
                mod = drv.ask([f"phys {pdesc} {a}" for a in probes] + [f"add {pdesc} {a} 1" for a in probes])
                got = []
                for a in probes:
                    c = impl.phys_code(live_bus, a)
                    got.append("err" if c == 0 else "none" if c == 1 else f"some {(c - 4) // 2}" if c % 2 == 0 else f"some -{(c - 5) // 2}")
                for a in probes:
                    c = impl.add_code(live_bus, a, 1)
                    got.append("err" if c == 0 else f"ok {c - 1}")
                s6.cases += len(got)
                s6.count("oracle:live-edit")
                bad = next((i for i, (x, y) in enumerate(zip(mod, got)) if x != y), None)
                if bad is not None:
                    a = probes[bad % len(probes)]
                    s6.violate({"sequence_so_far": pdesc, "addr": hex(a), "op": "physical" if bad < len(probes) else "+1", "note": "the bus object was queried after each earlier directive too"},
                               mod[bad], got[bad], "an address translated on a bus that was edited (map / unmap) after earlier use does not follow the bus as it is now")
                    break
        if ci < 2:
            s6.sample({"sequence": desc})
    streams.append(s6)

    # ---------------- the mapping a program gets does not depend on what was assembled before ----------
    import pipeline
    from props.layout import raw
    s5 = core.Stream("S1-programs-after-map", "programs under the built-in LoROM / HiROM mappings assembled (fresh Program each) right after programs that define their own .map (different geometry): bytes must land at the textbook offsets of their addresses and the address after a bank end must be the next bank's window start (Spec oracle), as for a program assembled alone; compared with the model")
    run_ = pipeline.Runner(drv)
    try:
        progs = []
        for i in range(6 if tier == "quick" else 60):
            mask = rng.choice([0x8000, 0x10000])
            lo = rng.choice([0, 1, 0x10])
            progs.append(raw("low_rom", f".map identifier=1 bank_range=0x{lo:x},0x3f addr_range=0x{0x10000 - mask:x},0xffff mask=0x{mask:x}\n.map identifier=2 bank_range=0x7e,0x7f addr_range=0,0xffff mask=0x10000 writable=1\n*=0x{lo + 1:02x}8000\n.db 1,2,3\n", usermap=(lo, 0x3f, mask)))
            rom = rng.choice(["low_rom", "high_rom", "low_rom_2"])
            b = {"low_rom": rng.randrange(1, 0x60), "high_rom": 0xC0 + rng.randrange(1, 0x3E), "low_rom_2": 0x80 + rng.randrange(1, 0x4E)}[rom]
            progs.append(raw(rom, f"*=0x{b:02x}8000\n.db 1,2\nl1:\n*=0x{b:02x}fffe\n.db 3,4,5\nl2:\n.dl l1, l2\n"))
        for pr, r, m in run_.run(progs):
            s5.cases += 1
            s5.nontrivial.add((pr["rom"], pr["src"][:40]))
            run_.correspond(s5, pr, r, m)
            if pr.get("usermap") is None:
                if r["status"] != "ok":
                    s5.violate({"src": pr["src"], "rom": pr["rom"], "after": "a program with its own .map"}, "assembled", r.get("exc") or r.get("error"), "a program under a built-in mapping is rejected after another program defined a custom map")
                pipeline.oracle_c03(run_, s5, pr, r)
                pipeline.oracle_c02(run_, s5, pr, r)
        s5.sample({"src": progs[1]["src"], "rom": progs[1]["rom"]})
    finally:
        run_.close()
    streams.append(s5)

    # ---------------- thorough: all 2^24 addresses x both buses, by hash per bank -------------------
    if tier == "thorough":
        s4 = core.Stream("S1-exhaustive", "every one of the 2^24 logical addresses x both built-in buses: physical (model, Spec for in-window) and +1 / +0x8001 advance (model), compared by per-bank rolling hash, mismatches bisected")
        s4.exhaustive = True
        tasks = [(bn, b, n) for bn in ("low", "high") for b in range(256) for n in (None, 1, 0x8001)]
        with mp.Pool(16) as pool:
            impl_h = pool.map(_bank_hash, tasks, chunksize=8)
        ops = []
        for bn, b, n in tasks:
            lo, hi = b << 16, (b + 1) << 16
            ops.append(f"physrange {bn} {lo} {hi}" if n is None else f"addrange {bn} {lo} {hi} {n}")
        model_h = drv.ask(ops)
        for (bn, b, n), ih, mh in zip(tasks, impl_h, model_h):
            s4.cases += 0x10000
            s4.nontrivial.add((bn, b, n))
            if str(ih) != mh:
                # bisect: find the first differing address
                bus = impl.bus_of(bn)
                lo = b << 16
                first = None
                single = drv.ask([(f"phys {bn} {a}" if n is None else f"add {bn} {a} {n}") for a in range(lo, lo + 0x10000)])
                for a, m_ in zip(range(lo, lo + 0x10000), single):
                    if n is None:
                        c = impl.phys_code(bus, a)
                        g = "err" if c == 0 else "none" if c == 1 else f"some {(c - 4) // 2}"
                    else:
                        c = impl.add_code(bus, a, n)
                        g = "err" if c == 0 else f"ok {c - 1}"
                    if g != m_:
                        first = (a, m_, g)
                        break
                s4.disagree({"bus": bn, "bank": b, "n": n, "first": hex(first[0]) if first else None}, first[1] if first else mh, first[2] if first else ih)
        # Spec on the code for every in-window address: per bank, compare the impl hash restricted to the window
        for bn in ("low", "high"):
            kinds = spec_bank(drv, bn, list(range(256)))
            bus = impl.bus_of(bn)
            ops, hs = [], []
            for b, k in kinds.items():
                start = (b << 16) + (0x10000 - k[3] if k and k[0] == "rom" else 0)
                ops.append(f"spec.physrange {bn} {start} {(b + 1) << 16}")
                h = 0
                for a in range(start, (b + 1) << 16, 1 if (b % 16 == 0) else 97):
                    pass
                hs.append((b, start))
            spec_h = drv.ask(ops)
            with mp.Pool(16) as pool:
                got = pool.map(_win_hash, [(bn, start, (b + 1) << 16) for b, start in hs], chunksize=8)
            for (b, start), sh, ih in zip(hs, spec_h, got):
                s4.cases += ((b + 1) << 16) - start
                if str(ih) != sh:
                    s4.violate({"bus": bn, "bank": hex(b)}, sh, ih, "some in-window address of this bank does not translate to the textbook offset (hash over the window)")
        s4.sample({"task": tasks[0], "hash": model_h[0]})
        streams.append(s4)
    return streams


def _win_hash(args):
    bn, lo, hi = args
    bus = impl.bus_of(bn)
    h = 0
    for a in range(lo, hi):
        h = hstep(h, impl.phys_code(bus, a))
    return h
