"""Shared machinery of the whole-pipeline streams (S4): run generated programs through the real assembler
(with per-node trace) and through the model, compare, and evaluate the property oracles on the real run."""
from __future__ import annotations

import shutil

import core
import gen_program
import impl

BRANCHES = {"bcc", "bcs", "beq", "bmi", "bne", "bpl", "bra", "bvc", "bvs"}


class Runner:
    def __init__(self, drv=None):
        self.drv = drv or core.Driver()
        self.tmp = core.tmpdir()
        self._kinds = {}
        self.timeouts = 0
        self.skipped = 0
        self.repeat_cases = 0
        self.repeat_failures = []
        self._batches = 0

    def close(self):
        shutil.rmtree(self.tmp, ignore_errors=True)

    # ---------------------------------------------------------------- running
    def run(self, progs, trace=True):
        """progs: list of dict(src, rom, files, bins[, defines]); returns list of (prog, real result, model answer)"""
        ops = []
        for pr in progs:
            t, b = impl.fs_args(pr.get("files"), pr.get("bins"))
            d = ",".join(f"{k.encode().hex()}={v}" for k, v in pr.get("defines", [])) or "-"
            ops.append(f"asm {pr['rom']} {d} {t} {b} {pr['src'].encode('utf-8').hex() or '-'}")
        model = self.drv.ask(ops)
        out = []
        for pr, m in zip(progs, model):
            if self.timeouts >= 6:
                # the real assembler keeps hanging: enough replays are on record, do not wait for the rest
                self.skipped += 1
                continue
            impl.write_files(self.tmp, pr.get("files"), pr.get("bins"))
            limit = 20.0 if self.timeouts == 0 else 3.0
            if trace:
                r = impl.trace_assemble(pr["src"], pr["rom"], cwd=self.tmp, defines=pr.get("defines"), timeout=limit)
            else:
                r = impl.assemble(pr["src"], pr["rom"], cwd=self.tmp, defines=pr.get("defines"), timeout=limit)
                r["labels"] = r.get("labels", [])
            if r.get("status") == "timeout":
                self.timeouts += 1
            out.append((pr, r, m))
        self._repeat(out, trace)
        return out

    def _repeat(self, out, trace):
        """a sample of the batch is assembled once more at the end (same source, same files written again, same process,
        after all the other programs of the batch used the same file names with other contents): same result"""
        if self.timeouts or len(out) < 2:
            return
        self._batches += 1
        import random
        rr = random.Random(f"repeat:{self._batches}:{len(out)}")
        for pr, r, _ in rr.sample(out, min(8, len(out))):
            if r.get("status") == "timeout":
                continue
            impl.write_files(self.tmp, pr.get("files"), pr.get("bins"))
            r2 = impl.assemble(pr["src"], pr["rom"], cwd=self.tmp, defines=pr.get("defines"), timeout=20.0)
            if r2.get("status") == "timeout":
                self.timeouts += 1
                return
            self.repeat_cases += 1
            a, b = impl.canon({**r, "labels": r.get("labels", [])}), impl.canon({**r2, "labels": r2.get("labels", [])})
            if a != b and len(self.repeat_failures) < 5:
                self.repeat_failures.append({"src": pr["src"], "rom": pr["rom"], "files": sorted((pr.get("files") or {}).keys()) + sorted((pr.get("bins") or {}).keys()),
                                             "first": a[:300], "again": b[:300], "programs_in_between": len(out)})

    def repeat_stream(self):
        s = core.Stream("S4-again", "a sample of every batch of programs is assembled a second time at the end of the batch — same source, same files (written again), same process, after the other programs of the batch (which reuse the same file names with other contents, other .map layouts, macros, tables): the outcome, writes and labels must be those of the first time")
        s.cases = self.repeat_cases
        s.nontrivial.add(self._batches)
        for f in self.repeat_failures:
            s.violate({k: f[k] for k in ("src", "rom", "files", "programs_in_between")}, f["first"], f["again"],
                      "the same source with the same files assembles to a different result the second time in one process (something survives from the assemblies in between)")
        s.sample({"batches": self._batches, "re-assembled": self.repeat_cases})
        return s

    def correspond(self, s: core.Stream, pr, r, m):
        """model == code on writes (block by block), labels (in order) and outcome class"""
        c, mm = impl.canon(r), impl.canon_model(m)
        if not impl.same_outcome(c, mm):
            s.disagree({"src": pr["src"], "rom": pr["rom"]}, mm[:400], c[:400])
            return False
        if c != mm:
            s.count("exception-type-differs")
        return True

    # ---------------------------------------------------------------- Spec helpers (through the driver)
    def bank_kinds(self, busname):
        if busname not in self._kinds:
            ans = self.drv.ask([f"spec.bank {busname} {b}" for b in range(256)])
            d = {}
            for b, a in enumerate(ans):
                w = a.split()
                d[b] = None if w[0] == "none" else ("ram",) if w[0] == "ram" else ("rom", int(w[1]), int(w[2]), int(w[3]))
            self._kinds[busname] = d
        return self._kinds[busname]

    def kind_of(self, pr, addr):
        """Spec classification of a logical address under the program's mapping: None | ('ram',) | ('rom', first, last, size)"""
        if addr is None or addr < 0:
            return None
        bank = addr >> 16
        if pr.get("regions"):
            # user .map prologue given as disjoint regions (first, last, size, ram)
            for lo, hi, mask, ram in pr["regions"]:
                if lo <= bank <= hi:
                    return ("ram",) if ram else ("rom", lo, hi, mask)
            return None
        um = pr.get("usermap")
        if um:
            lo, hi, mask = um
            if lo <= bank <= hi:
                return ("rom", lo, hi, mask)
            if 0x7E <= bank <= 0x7F:
                return ("ram",)
            return None
        busname = "high" if pr["rom"] == "high_rom" else "low"
        return self.bank_kinds(busname).get(bank)

    def spec_phys(self, pr, addr):
        """Spec file offset of an in-window ROM logical address, None for RAM / unmapped / below the window"""
        k = self.kind_of(pr, addr)
        if not k or k[0] != "rom":
            return None
        _, first, last, size = k
        pos = (addr & 0xFFFF) - (0x10000 - size)
        if pos < 0:
            return None
        return ((addr >> 16) - first) * size + pos

    def spec_addr(self, kind, off):
        _, first, last, size = kind
        return ((first + off // size) << 16) | ((0x10000 - size) + off % size)


# -------------------------------------------------------------------- oracles on the real run
def own_writes(r):
    """flattened writes of the program's own bytes (the blocks handed over for .include_ips are removed)"""
    ips = []
    for n in r.get("nodes") or []:
        if n["cls"] == "IncludeIpsNode" and n.get("blocks"):
            ips += n["blocks"]
    blocks = list(r["blocks"])
    for b in ips:
        if b in blocks:
            blocks.remove(b)
    return impl.flatten(blocks)


def own_offsets(r):
    """node index -> file offset at which the next emitted byte (at or after that node) is stored, from the real writes"""
    if r.get("_own_offsets") is not None:
        return r["_own_offsets"]
    flat = own_writes(r)
    out, k = {}, 0
    for i, n in enumerate(r["nodes"]):
        n["index"] = i
        if k < len(flat):
            out[i] = flat[k][0]
        k += len(n.get("bytes") or b"")
    r["_own_offsets"] = out
    return out


def oracle_c02(run: Runner, s: core.Stream, pr, r):
    """labels / incbin symbols = run address of the next byte; size in the label pass = bytes emitted"""
    if r["status"] != "ok" or r.get("nodes") is None:
        return
    for n in r["nodes"]:
        if n["run"] is None or (n.get("not_emitted") and "label_value" not in n):
            continue
        # SymbolNode is skipped by the label pass (its first pc_after call belongs to the symbol pass, whose
        # addresses are not used for anything)
        k = run.kind_of(pr, n["run"])
        if k and k[0] == "rom" and run.spec_phys(pr, n["run"]) is None:
            continue   # an address below the bank window (program without a leading *=): no claim (DESIGN section 8)
        # a statement whose size differs between the passes matters when a position-derived symbol follows it: that
        # label / incbin node then sits at another address than the one resolved for it (a size change after which
        # no label is defined shifts nothing a program can observe: DESIGN section 8)
        if n["cls"] in ("LabelNode", "BinaryNode") and n["pass1"] is not None and n["pass1"] != n["run"]:
            s.violate({"src": pr["src"], "rom": pr["rom"]}, f"{n['cls']} at {hex(n['pass1'])} in both passes", f"label pass {hex(n['pass1'])}, emitted at {hex(n['run'])}",
                      "a statement is placed at a different address than the one it had while labels were resolved (sizes disagree) and the assembly did not fail")
            return
        if n["cls"] in ("LabelNode", "BinaryNode") and (n.get("label_value") != n["run"] or n.get("symbol_value") != n["run"]):
            s.violate({"src": pr["src"], "rom": pr["rom"]}, f"{n['name']} = {hex(n['run'])}", (n.get("label_value"), n.get("symbol_value")),
                      "label / incbin symbol does not evaluate to the address where the next byte is emitted")
            return
    # the byte after a label is really placed at the file offset the mapping gives the label's address
    S, relocated, started = 0, False, False
    for n in r["nodes"]:
        if n["cls"] == "CodePositionNode":
            p = run.spec_phys(pr, n.get("target"))
            if p is None:
                break
            S, relocated, started = p, False, True
            continue
        if n["cls"] == "RelocationAddressNode":
            relocated = True
            continue
        if n["cls"] in ("LabelNode", "BinaryNode") and started and not relocated and n.get("run") is not None:
            nxt = own_offsets(r)
            # only when a byte is emitted after the label before the next position directive
            follows = False
            for m2 in r["nodes"][n.get("index", 0) + 1:] if "index" in n else []:
                if m2["cls"] in ("CodePositionNode", "RelocationAddressNode"):
                    break
                if m2.get("bytes"):
                    follows = True
                    break
            if n["cls"] == "BinaryNode" and n.get("bytes"):
                follows = True
            if follows and nxt is not None and n.get("index") in nxt and run.spec_phys(pr, n["run"]) != nxt[n["index"]]:
                s.violate({"src": pr["src"], "rom": pr["rom"]}, f"next byte after {n['name']} (= {hex(n['run'])}) at file offset {run.spec_phys(pr, n['run'])}", nxt[n["index"]],
                          "the first byte emitted after a label is not placed at the label's mapped address")
                return
    # named-scope exports carry the label's value
    root = r.get("symbols", {})
    labs = dict(r["labels"])
    for k, v in root.items():
        if "." in k:
            base = k.split(".", 1)[1]
            if base in labs and "." not in base:
                # only when every definition of that name in the program is a label (the name may also be a
                # constant / symbol / parameter of the scope, whose export is that value)
                import re
                if re.search(rf"(?m)\b{re.escape(base)}\s*:?=[^=]|^\s*\.macro\s+\w+\([^)]*\b{re.escape(base)}\b", pr["src"] + "".join((pr.get("files") or {}).values())):
                    continue
                cands = [val for name, val in r["labels"] if name == base]
                if v not in cands:
                    s.violate({"src": pr["src"], "rom": pr["rom"]}, f"{k} in {cands}", v, "a label exported from a named scope has a different value than the label")
                    return


def oracle_c01(run: Runner, s: core.Stream, pr, r):
    """every emitted instruction of the main file: opcode of (mnemonic, operand syntax of its source line, width) and
    the operand value truncated little-endian; width = the suffix written in the source, else the least of 1..3 bytes
    holding the (non-negative) value the operand has when the instruction is emitted"""
    import gen_wild
    if r["status"] != "ok" or r.get("nodes") is None:
        return
    if "_mn" not in run.__dict__:
        run._mn = set(run.drv.ask(["mnemonics"])[0].split())
    at = gen_wild.instr_lines(pr["src"], run._mn)
    ask, recs = [], []
    for n in r["nodes"]:
        if n["cls"] != "OpcodeNode" or n.get("file") != "main.s" or n.get("line") not in at or n.get("bytes") is None:
            continue
        mn, syn, sfx = at[n["line"]]
        if mn != n.get("opcode") or mn in BRANCHES or mn in ("brl", "per"):
            continue
        v = n.get("value")
        if syn == "0,0,none,-,-":
            v = 0
        elif v is None or (v < 0 and sfx is None):
            continue
        ask.append(f"spec.instr {mn} {syn} {sfx or '-'} {v}")
        recs.append((n, mn, syn, sfx, v))
    for (n, mn, syn, sfx, v), sp in zip(recs, run.drv.ask(ask)):
        if sp.startswith("noclaim") or sp == "bad-op":
            continue
        exp = sp.split()[1] if sp.startswith("ok") else None
        if exp is None or exp != n["bytes"].hex():
            s.violate({"src": pr["src"], "rom": pr["rom"], "line": n["line"], "instruction": pr["src"].split("\n")[n["line"]], "operand_value": v},
                      exp or "rejected (the 65c816 defines no such mnemonic / shape / width)", n["bytes"].hex(),
                      "an accepted instruction is not encoded as the ISA opcode for its operand syntax and width followed by the truncated operand")
            return


def oracle_c03(run: Runner, s: core.Stream, pr, r):
    """output = emitted bytes at their mapped offsets: *= moves offset and run address, @= only the run address;
    consecutive statements are assembled for consecutive run addresses (Spec advance: ROM by file offset, RAM by n)"""
    if r["status"] != "ok" or r.get("nodes") is None:
        return
    S, relocated, claim = 0, False, True
    exp = []
    started = False
    E = None   # Spec run address of the next statement (None = no claim yet / any more)
    for n in r["nodes"]:
        if n["run"] is None:
            if n.get("not_emitted") and not n.get("bytes") and n["cls"] not in ("CodePositionNode", "RelocationAddressNode"):
                continue
            return
        if n["cls"] == "CodePositionNode":
            p = run.spec_phys(pr, n.get("target"))
            k = run.kind_of(pr, n.get("target"))
            E = n.get("target") if k else None
            if p is None:
                if k and k[0] == "ram" and started:
                    # a RAM target has no file offset to move to: the bytes that follow are stored after what was
                    # stored so far (like @=); they never replace bytes already handed to the writer
                    relocated = True
                else:
                    claim = False   # *= below the bank window / before any ROM position: no claim about the offset (DESIGN section 8)
                    relocated = True
            else:
                S, relocated, claim, started = p, False, claim, True
            continue
        if n["cls"] == "RelocationAddressNode":
            relocated = True
            E = n.get("target") if run.kind_of(pr, n.get("target")) else None
            continue
        b = n["bytes"] or b""
        if E is not None and (b or n["cls"] in ("LabelNode",)) and n["run"] != E:
            s.violate({"src": pr["src"], "rom": pr["rom"]}, f"{n['cls']} assembled for {hex(E)} (the address after the bytes emitted since the last *= / @=)", hex(n["run"]),
                      "a statement is not assembled for the run address that follows the previous statement's bytes")
            return
        if b:
            if claim and started and not relocated:
                p = run.spec_phys(pr, n["run"])
                if p != S:
                    s.violate({"src": pr["src"], "rom": pr["rom"]}, f"offset {hex(S)} = mapped offset of run address {hex(n['run'])}", p,
                              "a byte is not stored at the file offset the mapping assigns to the address it was assembled for")
                    return
            for k, x in enumerate(b):
                exp.append((S + k, x))
            S += len(b)
            if E is not None:
                k = run.kind_of(pr, E)
                if k and k[0] == "ram":
                    E = E + len(b)
                    if run.kind_of(pr, E) != k:
                        E = None
                elif k and run.spec_phys(pr, E) is not None:
                    q = run.spec_phys(pr, E) + len(b)
                    E = run.spec_addr(k, q) if q < (k[2] - k[1] + 1) * k[3] else None
                else:
                    E = None
    if claim:
        got = own_writes(r)
        if got != exp:
            i = next((i for i, (a, b) in enumerate(zip(got, exp)) if a != b), min(len(got), len(exp)))
            s.violate({"src": pr["src"], "rom": pr["rom"]}, f"{len(exp)} bytes, first difference at #{i}: {exp[i] if i < len(exp) else None}",
                      f"{len(got)} bytes, {got[i] if i < len(got) else None}",
                      "the blocks handed to the writer are not exactly the emitted bytes, contiguous and in order, at the offsets *= selects")


def oracle_c05(run: Runner, s: core.Stream, pr, r):
    """relative branches: opcode + signed displacement target - (run + 2); RAM run address or target must be rejected"""
    if r.get("nodes") is None:
        return
    for n in r["nodes"]:
        if n["cls"] == "OpcodeNode" and n.get("opcode") in BRANCHES and n.get("bytes"):
            run_k, tgt_k = run.kind_of(pr, n["run"]), run.kind_of(pr, n.get("value"))
            inp = {"src": pr["src"], "rom": pr["rom"], "branch_at": hex(n["run"]), "target": n.get("value")}
            if not run_k or run_k[0] != "rom" or not tgt_k or tgt_k[0] != "rom":
                s.violate(inp, "rejected (run address or target not in ROM-mapped space)", n["bytes"].hex(), "a branch from or to RAM-mapped space is encoded")
                return
            if run.spec_phys(pr, n["run"]) is None or run.spec_phys(pr, n["value"]) is None:
                continue   # an address below the bank window is not a ROM logical address: no claim (DESIGN section 8)
            if (n["run"] >> 16) != (n["value"] >> 16):
                continue
            d = n["value"] - (n["run"] + 2)
            if not -128 <= d <= 127:
                s.violate(inp, "rejected (displacement %d out of range)" % d, n["bytes"].hex(), "an out-of-range branch is encoded")
                return
            if len(n["bytes"]) != 2 or n["bytes"][1] != d % 256:
                s.violate(inp, f"displacement byte {d % 256:02x}", n["bytes"].hex(), "branch displacement is not target - (branch address + 2)")
                return


def oracle_c07(run: Runner, s: core.Stream, pr, r):
    """data directives: exact little-endian truncation, ascii bytes, incbin bytes and symbols"""
    if r["status"] != "ok" or r.get("nodes") is None:
        return
    W = {"ByteNode": 1, "WordNode": 2, "LongNode": 3, "PointerNode": 3}
    for n in r["nodes"]:
        b = n.get("bytes")
        if n["cls"] in W and n.get("value") is not None:
            w = W[n["cls"]]
            exp = (n["value"] % (256 ** w)).to_bytes(w, "little")
            if b != exp:
                s.violate({"src": pr["src"], "rom": pr["rom"], "value": n["value"]}, exp.hex(), (b or b"").hex(), "data directive bytes are not the little-endian truncation of the value")
                return
        if n["cls"] == "AsciiNode":
            exp = n["text"].encode("ascii", "ignore")
            if b != exp:
                s.violate({"src": pr["src"]}, exp.hex(), (b or b"").hex(), ".ascii bytes differ from the quoted text")
                return
        if n["cls"] == "BinaryNode":
            content = (pr.get("bins") or {}).get(n["path"])
            if content is not None and b != content:
                s.violate({"src": pr["src"]}, content.hex(), (b or b"").hex(), ".incbin does not emit the file verbatim")
                return
            base = n["path"].replace("/", "_").replace(".", "_")
            if content is not None:
                # the size symbol lives in the scope of the directive; top-level ones are visible in root symbols
                root = r.get("symbols", {})
                if base + "__size" in root and root[base + "__size"] != len(content):
                    s.violate({"src": pr["src"]}, len(content), root[base + "__size"], "incbin size symbol is not the file length")
                    return


def corpus_programs():
    """minimised programs on which the model and the code once disagreed (or a defect was found): they run first"""
    import json
    import os
    import gen_wild
    out = []
    path = os.path.join(core.VERIF, "corpus", "programs.jsonl")
    if os.path.exists(path):
        for line in open(path, encoding="utf-8"):
            if line.strip():
                j = json.loads(line)
                files = {"w.tbl": gen_wild.TABLE, "w2.tbl": gen_wild.TABLE2}
                files.update(j.get("files") or {})
                out.append({"src": j["src"], "rom": j.get("rom", "low_rom"), "files": files, "bins": {}, "hist": {"corpus": 1}, "usermap": None})
    return out


def wild_stream(run: Runner, prop: str, tier: str, seed: int, oracles=()):
    """shadowing-heavy programs (gen_wild): whole-pipeline correspondence + the given per-node oracles"""
    import gen_wild
    rng = core.rng_for(seed, prop + "-wild")
    s = core.Stream("S4-wild", "shadowing-heavy generated programs (a pool of four names reused for constants, symbols, labels, loop variables, macro and block parameters at every nesting level, defined before and after their uses; mostly unsuffixed operands; macros that expand to nothing, splice a block argument several times or apply other macros inside spliced blocks; .text below its .table; included file) through the real assembler with per-node trace and through the model: same writes block by block, labels in order, outcome class; per-node oracles on the accepted ones; non-trivial = distinct (outcome, constructs used)")
    n = 1200 if tier == "quick" else 12000
    progs = corpus_programs() + [gen_wild.generate(rng, run.drv) for _ in range(n)]
    for pr, r, m in run.run(progs):
        s.cases += 1
        s.count(r["status"] + (":" + str(r.get("exc")) if r["status"] == "rejected" else ""))
        s.nontrivial.add((r["status"], r.get("exc"), tuple(sorted(k for k in pr["hist"] if not k.startswith(("instr", "def", "data"))))))
        run.correspond(s, pr, r, m)
        for o in oracles:
            o(run, s, pr, r)
    if run.skipped:
        s.count("not-run-after-repeated-timeouts", run.skipped)
    s.sample({"rom": progs[0]["rom"], "src": progs[0]["src"][:400]})
    return s


def gen_batch(rng, drv, n, **kw):
    progs = []
    for _ in range(n):
        progs.append(gen_program.generate(rng, drv, **kw))
    return progs
