#!/venv/bin/python
"""bin/check <property> <quick|thorough>  — decide one property on the current /repo working tree."""
import importlib
import os
import sys
import time

sys.path.insert(0, os.path.dirname(os.path.abspath(__file__)))
import core  # noqa: E402


def main():
    if len(sys.argv) < 3:
        print("usage: check <property id> <quick|thorough>")
        return 2
    prop, tier = sys.argv[1], sys.argv[2]
    seed = int(os.environ.get("VERIF_SEED", "0") or 0)
    t0 = time.time()
    cov_out = os.environ.get("A816_COV")
    if cov_out:
        import atexit
        import covmap
        covmap.start(core.REPO)
        atexit.register(covmap.dump, cov_out, core.REPO)
    try:
        build = core.prepare(prop, thorough=(tier == "thorough"))
        mod = importlib.import_module(f"props.{prop.lower()}")
        ctx = {"tier": tier, "seed": seed, "build": build, "prop": prop}
        streams = mod.run(ctx)
        extra = ctx.get("extra")
        return core.finish(prop, tier, seed, t0, build, streams, extra=extra,
                           obligations_note=getattr(mod, "OBLIGATIONS_NOTE", ""),
                           assumptions=getattr(mod, "ASSUMPTIONS", None))
    except core.subprocess.TimeoutExpired as e:
        print(f"{prop}: timeout in {e.cmd}", file=sys.stderr)
        return 2
    except Exception as e:  # noqa: BLE001
        # an exception nobody anticipated.  If it was raised inside /repo's code (the harness called it somewhere the
        # unchanged code never raises), the correspondence is broken and that is reported; anything else is a fault of
        # this machinery: exit 2, never a verdict.
        import hashlib
        import json
        import traceback
        tb = traceback.extract_tb(e.__traceback__)
        text = "".join(traceback.format_exception(type(e), e, e.__traceback__))
        print(text, file=sys.stderr)
        repo = os.path.realpath(core.REPO) + os.sep
        if tb and os.path.realpath(tb[-1].filename).startswith(repo):
            os.makedirs(os.path.join(core.VERIF, "replays"), exist_ok=True)
            name = f"{prop}-{hashlib.sha1(text.encode()).hexdigest()[:12]}.json"
            with open(os.path.join(core.VERIF, "replays", name), "w", encoding="utf-8") as fh:
                json.dump({"property": prop, "kind": "broken-obligation",
                           "obligations": ["correspondence: the code under test raised where the harness calls it outside "
                                           "every per-case handler (the unchanged code never does)"],
                           "exception": repr(e), "traceback": text[-4000:], "seed": seed, "tier": tier,
                           "cmd": f"bin/check {prop} {tier}", "repo": core.REPO}, fh, indent=1)
            print(f"VIOLATION property={prop} replay=replays/{name} no-failing-input-found")
            return 1
        return 2


if __name__ == "__main__":
    sys.exit(main())
