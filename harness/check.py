#!/venv/bin/python
"""bin/check <property> <quick|thorough>  — decide one property on the current /repo working tree."""
import importlib
import os
import sys
import time

sys.path.insert(0, os.path.dirname(os.path.abspath(__file__)))
import core  # noqa: E402


def main():
    if len(sys.argv) < 3:
        print("usage: check <property id> <quick|thorough>")
        return 2
    prop, tier = sys.argv[1], sys.argv[2]
    seed = int(os.environ.get("VERIF_SEED", "0") or 0)
    t0 = time.time()
    try:
        build = core.prepare(prop, thorough=(tier == "thorough"))
        mod = importlib.import_module(f"props.{prop.lower()}")
        ctx = {"tier": tier, "seed": seed, "build": build, "prop": prop}
        streams = mod.run(ctx)
        extra = ctx.get("extra")
        return core.finish(prop, tier, seed, t0, build, streams, extra=extra,
                           obligations_note=getattr(mod, "OBLIGATIONS_NOTE", ""),
                           assumptions=getattr(mod, "ASSUMPTIONS", None))
    except core.subprocess.TimeoutExpired as e:
        print(f"{prop}: timeout in {e.cmd}", file=sys.stderr)
        return 2


if __name__ == "__main__":
    sys.exit(main())
