"""Grammar-directed generator of mostly-valid a816 programs (DESIGN.md Appendix D).

A program is a tree of statement tuples; `render` writes it out one statement per line (canonical
layout).  The generator is symbol-table aware: it only references names that are visible at the point of
use, uses inferred operand widths only where the operand is evaluable while labels are resolved, keeps
branches inside one relocation region of bounded size, and picks `*=` targets in the mapped window.
Every random choice derives from the `random.Random` passed in.
"""
from __future__ import annotations

SUPPORTED_CACHE = {}

IDX_TXT = {"-": "", "x": ",x", "y": ",y", "s": ",s"}


def operand_text(syn: str, e: str) -> str:
    op, imm, br, inner, outer = syn.split(",")
    o = IDX_TXT[outer]
    i = IDX_TXT[inner]
    if imm == "1":
        return "#" + e + o
    if br == "paren":
        return "(" + e + i + ")" + o
    if br == "square":
        return "[" + e + i + "]" + o
    return e + o


def supported(drv):
    if "s" not in SUPPORTED_CACHE:
        out = []
        for item in drv.ask(["spec.supported"])[0].split(";"):
            mn, syn, w, op, rel = item.split()
            out.append((mn, syn, int(w), int(op), rel == "1"))
        SUPPORTED_CACHE["s"] = out
    return SUPPORTED_CACHE["s"]


class Ctx:
    def __init__(self):
        self.consts = {}      # visible := constants -> value
        self.syms = set()     # visible `=` symbols (defined earlier in this or an enclosing scope)
        self.labels = set()   # labels of this and enclosing scopes (defined anywhere: visible at emit time)
        self.early = set()    # labels already defined (usable with inferred width)
        self.params = {}      # macro parameters in scope -> "int" | "code"
        self.in_macro = False
        self.in_loop = False

    def child(self):
        c = Ctx()
        c.consts = dict(self.consts)
        c.syms = set(self.syms)
        c.labels = set(self.labels)
        c.early = set(self.early)
        c.params = dict(self.params)
        c.in_macro = self.in_macro
        c.in_loop = self.in_loop
        return c


class Gen:
    def __init__(self, rng, drv, rom="low_rom", features=None, max_depth=3):
        self.rng = rng
        self.sup = supported(drv)
        self.rom = rom
        self.f = features or {}
        self.max_depth = max_depth
        self.n = 0
        self.files = {}
        self.bins = {}
        self.macros = {}      # name -> (params kinds)
        self.section_bytes = 0
        self.region = 0       # relocation region id (changes at *= / @=)
        self.region_labels = {}  # region -> labels defined in it (top nesting only)
        self.ram = False
        self.bank = 1
        self.hist = {}
        self.usermap = None

    def count(self, k):
        self.hist[k] = self.hist.get(k, 0) + 1

    def fresh(self, p):
        self.n += 1
        return f"{p}{self.n}"

    # ------------------------------------------------------------------ addresses
    def rom_addr(self, near_end=False):
        r = self.rng
        self.bank += 1
        if self.rom == "high_rom":
            bank = 0xC0 + (self.bank % 0x3E)
            off = r.randrange(0, 0xFF00) if not near_end else 0x10000 - r.randrange(1, 24)
        elif self.rom == "low_rom_2":
            bank = 0x80 + (self.bank % 0x4E)
            off = r.randrange(0x8000, 0xFF00) if not near_end else 0x10000 - r.randrange(1, 24)
        elif self.usermap:
            lo, hi, mask = self.usermap
            bank = lo + (self.bank % max(1, hi - lo))
            base = 0x10000 - mask
            off = r.randrange(base, 0xFF00) if not near_end else 0x10000 - r.randrange(1, 24)
        else:
            bank = self.bank % 0x6E
            off = r.randrange(0x8000, 0xFF00) if not near_end else 0x10000 - r.randrange(1, 24)
        return (bank << 16) | off

    # ------------------------------------------------------------------ expressions
    def lit(self, v):
        r = self.rng.random()
        if v < 0:
            return f"-{self.lit(-v)}"
        if r < 0.5:
            return "0x%x" % v
        if r < 0.8:
            return str(v)
        return "0x%X" % v

    def value_expr(self, ctx, width=None, early_only=False, allow_forward=True):
        """an expression text; `width` asks for a known non-negative value of exactly that byte width"""
        r = self.rng
        if width is not None:
            lo, hi = {1: (0, 0xFF), 2: (0x100, 0xFFFF), 3: (0x10000, 0xFFFFFF)}[width]
            cands = [k for k, v in ctx.consts.items() if lo <= v <= hi]
            if cands and r.random() < 0.4:
                self.count("operand:const-inferred")
                return r.choice(cands)
            v = r.choice([lo, hi, r.randrange(lo, hi + 1)])
            if r.random() < 0.25 and v > lo + 2:
                a = r.randrange(1, v - lo)
                self.count("operand:expr-inferred")
                return f"{self.lit(v - a)} + {self.lit(a)}"
            self.count("operand:literal-inferred")
            return self.lit(v)
        names = list(ctx.consts) + [p for p, k in ctx.params.items() if k == "int"]
        if not early_only:
            names += list(ctx.syms)
        labs = list(ctx.early if (early_only or not allow_forward) else ctx.labels)
        pool = names + labs
        c = r.random()
        if pool and c < 0.6:
            n = r.choice(pool)
            self.count("operand:name")
            if r.random() < 0.3:
                return f"{n} {r.choice(['+', '-'])} {self.lit(r.randrange(0, 9))}"
            return n
        if pool and c < 0.7:
            self.count("operand:binary-expr")
            return f"{r.choice(pool)} {r.choice(['+', '&', '>>'])} {self.lit(r.choice([1, 8, 0xFF, 0xFFFF]))}"
        self.count("operand:literal")
        return self.lit(r.choice([0, 1, 0x7F, 0xFF, 0x100, 0x1234, 0xFFFF, 0x10000, 0x123456, r.randrange(1 << 24)]))

    def val_text(self, v, ctx=None):
        """an expression text whose value is the known non-negative integer v; its top-level operator may bind looser
        than + (<<, >>, &) and it is never parenthesised as a whole"""
        r = self.rng
        c = r.random()
        if c < 0.35:
            return self.lit(v)
        if c < 0.45:
            a = r.randrange(1, 9)
            return f"{self.lit(v + a)} - {self.lit(a)}"
        if c < 0.55:
            a = r.randrange(0, v + 1)
            return f"{self.lit(a)} + {self.lit(v - a)}"
        if c < 0.67:
            return f"{self.lit(v | (r.randrange(0, 4) << 8))} & {self.lit(r.choice([0xFF, 0x7F, 0xF0 | v]))}" if v < 0x70 else self.lit(v)
        if c < 0.79:
            k = r.randrange(1, 4)
            return f"{self.lit((v << k) | r.randrange(0, 1 << k))} >> {k}"
        if c < 0.91:
            k = 0
            while v and v % 2 == 0 and k < 3 and r.random() < 0.8:
                v //= 2
                k += 1
            return f"{self.lit(v)} << {k}"
        if ctx is not None and ctx.consts:
            n = r.choice(list(ctx.consts))
            d = v - ctx.consts[n]
            return f"{n} + {self.lit(d)}" if d >= 0 else f"{n} - {self.lit(-d)}"
        return f"({self.lit(v)})"

    def cond_text(self, ctx):
        """an .if condition: literals, constants, undefined names, macro parameters and loop variables of any
        enclosing scope (their value is known only when the body is expanded), small expressions over them"""
        r = self.rng
        base = ["1", "0", "-1", self.fresh("undefined_name")] + list(ctx.consts)[:3]
        dyn = [p for p, k in ctx.params.items() if k == "int"]
        c = r.random()
        if dyn and c < 0.5:
            n = r.choice(dyn)
            return r.choice([n, n, f"{n} & 1", f"{n} - 1", f"{n} - 2", f"{n} >> 1", f"{n} + 1"])
        if ctx.consts and c < 0.65:
            n = r.choice(list(ctx.consts))
            return r.choice([f"{n} - {n}", f"{n} & 1", f"{n} + 1", f"{n} >> 4"])
        return r.choice(base)

    # ------------------------------------------------------------------ statements
    def instr(self, ctx):
        r = self.rng
        mn, syn, w, op, rel = r.choice(self.sup)
        if rel:
            return self.branch(ctx, mn)
        if w == 0:
            self.section_bytes += 1
            self.count("instr:implied")
            return [("instr", mn, syn, None, None)]
        self.section_bytes += 1 + w
        if r.random() < 0.6:
            self.count("instr:suffix")
            e = self.value_expr(ctx)
            if w == 3 and e.startswith("-"):
                e = e[1:]
            return [("instr", mn, syn, w, e)]
        self.count("instr:inferred")
        return [("instr", mn, syn, None, self.value_expr(ctx, width=w))]

    def branch(self, ctx, mn=None):
        r = self.rng
        mn = mn or r.choice(["bra", "bne", "beq", "bcc", "bcs", "bmi", "bpl"])
        labs = [l for l in self.region_labels.get(self.region, []) if l in ctx.labels]
        if self.ram or not labs or self.section_bytes > 100:
            self.section_bytes += 1
            return [("instr", "nop", "0,0,none,-,-", None, None)]
        self.section_bytes += 2
        self.count("branch")
        return [("branch", mn, r.choice(labs))]

    def data(self, ctx):
        r = self.rng
        kind = r.choice(["db", "dw", "dl", "pointer"])
        n = r.randrange(1, 6)
        self.section_bytes += n * {"db": 1, "dw": 2, "dl": 3, "pointer": 3}[kind]
        self.count("data:" + kind)
        return [("data", kind, [self.value_expr(ctx) for _ in range(n)])]

    def new_section(self, ctx, force_rom=False):
        r = self.rng
        self.section_bytes = 0
        self.region += 1
        c = r.random()
        if force_rom or c < 0.6:
            self.ram = False
            self.count("pos:*=")
            return [("org", self.rom_addr(near_end=r.random() < 0.25))]
        if c < 0.8:
            self.ram = True
            self.count("pos:@=ram")
            return [("reloc", 0x7E0000 + r.randrange(0, 0xF000))]
        self.ram = False
        self.count("pos:@=rom")
        return [("reloc", self.rom_addr())]

    def stmt(self, ctx, depth, toplevel_labels):
        r = self.rng
        c = r.random()
        if self.section_bytes > 90 and depth == 0:
            return self.new_section(ctx, force_rom=True)
        if c < 0.30:
            return self.instr(ctx)
        if c < 0.42:
            return self.data(ctx)
        if c < 0.48:
            return self.branch(ctx)
        if c < 0.54:
            name = self.fresh("c")
            # value computed here: only literals and earlier constants
            if ctx.consts and r.random() < 0.5:
                k = r.choice(list(ctx.consts))
                a = r.randrange(0, 5)
                val = ctx.consts[k] + a
                txt = f"{k} + {a}"
            else:
                val = r.choice([0, 1, 0x10, 0xFF, 0x100, 0x1234, 0x12345, r.randrange(0x1000000)])
                txt = self.lit(val)
            ctx.consts[name] = val
            self.count("def:const")
            return [("const", name, txt, val)]
        if c < 0.58:
            name = self.fresh("s")
            e = self.value_expr(ctx, allow_forward=True)
            ctx.syms.add(name)
            self.count("def:symbol")
            return [("sym", name, e)]
        if c < 0.62 and depth == 0 and not ctx.in_macro and not ctx.in_loop:
            return self.new_section(ctx)
        if c < 0.66:
            self.count("ascii")
            t = "".join(r.choice("abcXYZ 09_-") for _ in range(r.randrange(0, 8)))
            self.section_bytes += len(t)
            return [("ascii", t)]
        if c < 0.70 and self.f.get("incbin"):
            name = self.fresh("bin") + ".dat"
            ln = r.choice([0, 1, 2, 17, 40])
            self.bins[name] = bytes(r.randrange(256) for _ in range(ln))
            self.section_bytes += ln
            self.count("incbin")
            base = name.replace(".", "_")
            ctx.labels.add(base)
            ctx.consts  # size symbol is an `=`-like symbol defined in pass 1
            return [("incbin", name)]
        if depth < self.max_depth:
            if c < 0.76:
                self.count("struct:block")
                if r.random() < 0.25 and depth + 1 < self.max_depth:
                    # a block whose definitions are all guarded by a condition
                    self.count("struct:block-of-if")
                    cc = ctx.child()
                    tb = self.block(cc, depth + 2, small=True)
                    if not any(x[0] == "label" for x in tb):
                        name = self.fresh("L")
                        cc.labels.add(name)
                        tb = [("label", name)] + tb + [("data", "dw", [name])]
                        self.section_bytes += 2
                    eb = self.block(cc.child(), depth + 2, small=True) if r.random() < 0.4 else None
                    pre = [] if r.random() < 0.6 else self.instr(cc)
                    return [("block", pre + [("if", r.choice(["1", "1", "-1"] + [k for k, v in ctx.consts.items() if v][:2]), tb, eb)])]
                return [("block", self.block(ctx.child(), depth + 1))]
            if c < 0.80 and not ctx.in_loop and not ctx.in_macro:
                name = self.fresh("sc")
                self.count("struct:scope")
                body = self.block(ctx.child(), depth + 1, export_to=(ctx, name))
                return [("scope", name, body)]
            if c < 0.85:
                self.count("struct:if")
                cond = self.cond_text(ctx)
                tb = self.block(ctx.child(), depth + 1, small=True)
                eb = self.block(ctx.child(), depth + 1, small=True) if r.random() < 0.5 else None
                return [("if", cond, tb, eb)]
            if c < 0.90:
                self.count("struct:for")
                v = self.fresh("k")
                lo = r.randrange(0, 3)
                cnt = r.choice([0, 1, 2, 3])
                cc = ctx.child()
                cc.in_loop = True
                cc.consts[v] = lo  # value varies; only used with explicit widths
                cc.params[v] = "int"
                del cc.consts[v]
                body = self.block(cc, depth + 1, small=True)
                if r.random() < 0.3:
                    lo = r.choice([4, 8, 16, 0x20, 0x41])
                return [("for", v, self.val_text(lo, ctx), self.val_text(lo + cnt, ctx), body, lo, lo + cnt)]
            if c < 0.95 and self.macros and not ctx.in_macro:
                name = r.choice(list(self.macros))
                kinds = self.macros[name]
                args = []
                for k in kinds:
                    if k == "code":
                        args.append(("code", self.block(ctx.child(), depth + 1, small=True, no_labels=True)))
                    else:
                        args.append(self.value_expr(ctx))
                self.count("macro:apply")
                self.section_bytes += 12
                return [("apply", name, args)]
        return self.instr(ctx)

    def block(self, ctx, depth, small=False, export_to=None, no_labels=False):
        r = self.rng
        n = r.randrange(1, 4 if small else 7)
        # decide which positions define labels, so that forward references can name them
        label_at = {}
        if not no_labels:
            for i in range(n):
                if r.random() < 0.35:
                    label_at[i] = self.fresh("L")
        for name in label_at.values():
            ctx.labels.add(name)
        out = []
        for i in range(n):
            if i in label_at:
                name = label_at[i]
                out.append(("label", name))
                ctx.early.add(name)
                if depth == 0 or True:
                    self.region_labels.setdefault(self.region, []).append(name)
                self.count("def:label")
                if export_to is not None:
                    pctx, sname = export_to
                    pctx.labels.add(f"{sname}.{name}")
            out += self.stmt(ctx, depth, label_at)
        return out

    def macro_def(self):
        r = self.rng
        name = self.fresh("mac")
        nparams = r.randrange(0, 3)
        kinds = [r.choice(["int", "int", "code"]) for _ in range(nparams)]
        params = [self.fresh("p") for _ in kinds]
        ctx = Ctx()
        ctx.in_macro = True
        for p, k in zip(params, kinds):
            ctx.params[p] = k
        save = (self.section_bytes, self.region, self.ram)
        self.region = -self.n  # labels inside a macro body are not branch targets outside
        body = self.block(ctx, 1, small=True)
        for p, k in zip(params, kinds):
            if k == "code":
                body.insert(r.randrange(0, len(body) + 1), ("lookup", p))
        self.section_bytes, self.region, self.ram = save
        self.macros[name] = kinds
        self.count("macro:def")
        return ("macro", name, params, body)

    def program(self):
        r = self.rng
        out = []
        if self.f.get("usermap"):
            lo = r.randrange(0, 0x40)
            hi = lo + r.randrange(4, 0x30)
            mask = r.choice([0x8000, 0x10000])
            self.usermap = (lo, hi, mask)
            base = 0x10000 - mask
            # the declared addr_range is not what places the window (the mask is): it is varied independently
            ar = r.choice([base, base, 0x8000, 0x0, 0x4000])
            out.append(("map", f".map identifier=1 bank_range=0x{lo:x},0x{hi:x} addr_range=0x{ar:x},0xffff mask=0x{mask:x}"))
            out.append(("map", ".map identifier=2 bank_range=0x7e,0x7f addr_range=0,0xffff mask=0x10000 writable=1"))
        ctx = Ctx()
        for _ in range(r.randrange(0, 3) if self.f.get("macros", True) else 0):
            out.append(self.macro_def())
        self.region = 1
        if self.rom != "low_rom" or self.usermap or r.random() < 0.85:
            out += self.new_section(ctx, force_rom=True)
        out += self.block(ctx, 0)
        for _ in range(r.randrange(0, 3)):
            out += self.new_section(ctx, force_rom=r.random() < 0.7)
            out += self.block(ctx, 0)
        return out


def render(stmts, indent=0):
    lines = []
    for s in stmts:
        k = s[0]
        if k == "org":
            lines.append(f"*=0x{s[1]:06x}")
        elif k == "reloc":
            lines.append(f"@=0x{s[1]:06x}")
        elif k == "label":
            lines.append(f"{s[1]}:")
        elif k == "const":
            lines.append(f"{s[1]} := {s[2]}")
        elif k == "sym":
            lines.append(f"{s[1]} = {s[2]}")
        elif k == "instr":
            _, mn, syn, sfx, e = s
            sf = {None: "", 1: ".b", 2: ".w", 3: ".l"}[sfx]
            lines.append(mn if e is None else f"{mn}{sf} {operand_text(syn, e)}")
        elif k == "branch":
            lines.append(f"{s[1]} {s[2]}")
        elif k == "data":
            lines.append(f".{s[1]} " + ", ".join(s[2]))
        elif k == "ascii":
            lines.append(f".ascii '{s[1]}'")
        elif k == "text":
            lines.append(f".text '{s[1]}'")
        elif k == "table":
            lines.append(f".table '{s[1]}'")
        elif k == "incbin":
            lines.append(f".incbin '{s[1]}'")
        elif k == "include_ips":
            lines.append(f".include_ips '{s[1]}', {s[2]}")
        elif k == "include":
            lines.append(f".include '{s[1]}'")
        elif k == "map":
            lines.append(s[1])
        elif k == "raw":
            lines.append(s[1])
        elif k == "block":
            lines.append("{")
            lines += render(s[1])
            lines.append("}")
        elif k == "scope":
            lines.append(f".scope {s[1]} {{")
            lines += render(s[2])
            lines.append("}")
        elif k == "macro":
            lines.append(f".macro {s[1]}({', '.join(s[2])}) {{")
            lines += render(s[3])
            lines.append("}")
        elif k == "apply":
            args = []
            for a in s[2]:
                if isinstance(a, tuple):
                    args.append("{\n" + "\n".join(render(a[1])) + "\n}")
                else:
                    args.append(a)
            lines.append(f"{s[1]}({', '.join(args)})")
        elif k == "lookup":
            lines.append("{{" + s[1] + "}}")
        elif k == "if":
            lines.append(f".if {s[1]} {{")
            lines += render(s[2])
            if s[3] is not None:
                lines.append("} else {")
                lines += render(s[3])
            lines.append("}")
        elif k == "for":
            lines.append(f".for {s[1]} := {s[2]}, {s[3]} {{")
            lines += render(s[4])
            lines.append("}")
        else:
            raise ValueError(k)
    return lines


def source(stmts):
    return "\n".join(render(stmts)) + "\n"


def generate(rng, drv, rom=None, features=None):
    rom = rom or rng.choice(["low_rom", "low_rom", "low_rom", "high_rom", "low_rom_2"])
    feats = dict(features or {})
    if "usermap" not in feats and rom == "low_rom" and rng.random() < 0.15:
        feats["usermap"] = True
    feats.setdefault("incbin", True)
    g = Gen(rng, drv, rom=rom, features=feats)
    st = g.program()
    return {"stmts": st, "src": source(st), "rom": rom, "files": g.files, "bins": g.bins, "hist": g.hist, "usermap": g.usermap}
