#!/venv/bin/python
"""Writes MANIFEST.json from the table below (kept in one place so that it is always valid)."""
import json, os
HERE = os.path.dirname(os.path.dirname(os.path.abspath(__file__)))

CLAIMED = {
 "C04": ("full", "6/C04", "Lean 4 proof (unbounded omega arithmetic over the mapping model + kernel evaluation of the regenerated built-in buses) tied to the code by data translation and differential correspondence",
         "Theorems for every address/increment: offset formula, mirror law, RAM/unmapped, advance-by-n (same range, in window, offset+n), add_zero, add_add; the two built-in buses regenerated from the live objects are classified bank by bank by `decide +kernel` against the SNES map of Spec/RomMaps. Tie: Gen tables + streams S1 (boundary/random quick; all 2^24 x 2 buses by hash in thorough) + random .map configurations; the Spec oracle is evaluated on the real code for every generated in-window address.",
         "Model of mapping.py is hand-written (tied by correspondence on explored inputs: exhaustive for the built-in buses in thorough). Increments are non-negative; addresses below the bank window and `*=` to RAM are outside the claim (DESIGN section 8)."),
 "C20": ("full", "6/C20", "Lean 4 proof (omega over the legacy formulas, bus facts from the regenerated tables) + differential correspondence",
         "Theorems for every offset in range: rom_to_snes = textbook address of the mode's range, its mapped offset on the regenerated bus is the offset, snes_to_rom inverts (low2 below 0x200000), pointer formulas. Tie: S10 (boundaries+random quick; all 2^22 x 3 by hash in thorough) with the Spec oracle evaluated on the real functions.",
         "int(address/0x8000) float division modelled as Nat division (exact below 2^53)."),
}

CLAIMED["C06"] = ("full at token level", "6/C06", "Lean 4 proof by structural induction over expression trees (fused shunting-yard simulation + pending-operator invariant), operator table regenerated from /repo and order-checked by kernel evaluation; differential correspondence of eval_expression",
  "C06_value: for EVERY well-formed tree of any depth with a defined value, the code's algorithm (queue construction then queue evaluation, real precedence table) returns the conventional value; literals in 3 bases/either case read back (C06_literal); ~ semantics (C06_invert). Tie: Gen.operatorPrecedence + streams S3 (real lexer+parser+evaluator on rendered trees with random spacing vs model on the real token list, Spec.eval oracle, classification tie, seven program contexts, arbitrary token lists with exact exception class) + S0 (Python & | ~).",
  "Scanner/parser classification of expression text is tied by stream (not yet by theorem); operators a context cannot lex are outside that context's claim; `/` has no evaluation rule and is rejected.")

CLAIMED["C01"] = ("full", "6/C01", "Lean 4 proof: kernel evaluation (`decide +kernel`) of the whole regenerated opcode table against an independently transcribed 65c816 opcode matrix, of all 192 operand-syntax records, and of the frozen supported set; unbounded omega arithmetic for width inference and operand bytes; differential correspondence through the real scanner/parser/assembler",
  "table_sound + syntax_sound + C01_sound (every mnemonic, syntax, suffix, every operand value: accepted => ISA opcode of the denoted shape at the ruled width + truncated LE value, nothing else), C01_rejects (undefined => rejected), supported_kept (all 227 supported encodings keep assembling for every fitting value). Tie: Gen.opcodeTable / Gen.indexMap + stream S2 (one-instruction programs over the complete mnemonic x 48 shapes x suffix x magnitude product in thorough; every table row quick) with the ISA oracle on the real code; S0 width rule.",
  "Branch operands are C05's subject; negative operands without a suffix and `.l` with a value outside 0..2^24-1 carry no claim (DESIGN section 8). Spec/ISA.lean is a hand transcription of the WDC matrix guarded by two kernel-checked sanity theorems.")

CLAIMED["C11"] = ("full", "6/C11", "Lean 4 proof by induction over the 0xFFFF split loop and the block list (writer vs an independent standard IPS reader and patcher), omega for the byte-level header lemma; differential correspondence of the real IPSWriter",
  "write_parses (file = PATCH ++ body ++ EOF and the standard reader reads exactly the expected records), chunks_sizes (1..65535), apply_is_writes (patch effect = the blocks at their addresses, +0x200 with copier header, in order), empty_block_noop, unrepresentable_refused; all for every write sequence, any lengths/addresses. Tie: stream S8-ipsw (lengths around multiples of 65535, offsets around 0x454F46 / 2^24 / negative, copier on/off) with the reader/patcher oracle on the real file.",
  "Partial output left in the file object when the writer raises is not modelled (the result is `error`).")
CLAIMED["C13"] = ("full", "6/C13", "Lean 4 proof by induction over the record loop: the reader of IncludeIpsNode equals the standard IPS reader shifted by delta on every byte string, and rejects exactly the malformed ones; differential correspondence on generated files",
  "include_is_shifted_patch + malformed_rejected for every byte string and every signed delta (plain, run-length, max-length records). Tie: stream S8-ipsr (records of all kinds, truncations, bad header, no EOF, trailing bytes, exact file sizes k*8192+{-3..3}) and S8-include-in-program (surroundings unaffected, records in order).",
  "File I/O (open/read) is modelled as a byte list; buffering behaviour is exercised by the size-at-buffer-boundary files.")

CLAIMED["C18"] = ("full: encoding = longest match for every table and string, decode round trip for every decodable table", "6/C18", "Lean 4 proof by induction over the string (to_bytes = reference longest-match encoder for every table and string; the min(len, max_text_length) bound loses no match; fuel sufficiency = termination) and over the entry sequence (to_text of the concatenated codes of a unique, prefix-free table returns the texts: a longer matching code would have the emitted code as a proper prefix) + differential correspondence of script.Table",
  "tryLen_longest, toBytes_is_encode, toBytes_fuel, jokerMatch_eq_escape, longest_isLongest, roundtrip (Decodable tables: unique, non-empty, prefix-free codes, no ignore suffix), tryLenBytes_found. Tie: stream S9 (generated tables with overlapping prefixes, multi-byte codes, ignore suffixes, junk lines x strings with escapes and unknown characters; encode, decode; round trip on unique prefix-free tables as oracle on the real code) and S9-text-in-program (size in layout, table inheritance, escapes / unknown characters / escaped quotes inside programs).",
  "Table file parsing is a hand-written recogniser of the regex tied by correspondence. That to_bytes of a string over a single-character table yields exactly the codes of its characters (so that the round trip applies to to_text(to_bytes(s))) is checked by the oracle on generated tables, not yet composed in Lean.")

CLAIMED["C02"] = ("full on the model after the F02 repair; no-spurious-rejection partial", "6/C02", "Lean 4 proof by induction over the emission loop of the passes model (every label / incbin node is emitted at the address the label pass recorded, or emission fails) + per-statement-kind size-agreement lemmas (omega / case analysis) + differential correspondence of the whole pipeline with per-node trace",
  "C02_labels, label_moved_fails, next_byte_at_label, label_pass_value, data/ascii/text/incbin/implied/relative/sized(suffix)/sized(inferred, same value) size_agree. Tie: whole-pipeline model (scanner+parser+codegen+passes) vs real assembler on generated programs (writes block by block, labels in order, outcome), oracle on the real run: address in the label pass = address at emission for every node, label value = run address; width-unstable and duplicate-label programs must be rejected.",
  "The global theorem that width-stable programs are never rejected by the check (pass_addresses_agree) is not proved yet; it is exercised by the generated valid programs (none may be rejected).")
CLAIMED["C03"] = ("full for *= to ROM targets", "6/C03", "Lean 4 proof: loop invariant over Program.emit (flattened own writes = trace laid out at storage offsets), step theorems for *= and @=, storage-offset = mapped-offset invariant via the C04 advance law; differential correspondence of the whole pipeline with per-node trace",
  "writes_are_trace, star_eq_moves_both, at_eq_moves_logical_only, sync_after_star_eq, sync_step. Tie: whole-pipeline model vs real assembler on generated and position-heavy programs; oracle on the real run: flattened writes = emitted bytes at the offsets selected by *=, offset = Spec mapped offset of the run address while no @= intervenes, bank crossings included.",
  "`*=` to a RAM bank or below the bank window carries no claim about the offset (DESIGN section 8). Blocks of .include_ips are interleaved by the writer in call order (C13).")
CLAIMED["C05"] = ("full on the model after the F05 repair", "6/C05", "Lean 4 proof: case analysis of RelativeJumpOpcode.emit (encoding, range, RAM rejection), pc-tracks-run-address invariant over emission (C04 advance law), omega for same-bank displacement; differential correspondence + exhaustive displacement grid",
  "C05_encode, C05_out_of_range_rejected, C05_source_ram_rejected, C05_target_ram_rejected, pcSync_setPosition/after_position/emit, same_bank_displacement. Tie: branch grid (7 mnemonics x displacements -300..300 x placements x @= ROM/RAM x LoROM/HiROM; complete in thorough) through the real assembler and the model with the displacement oracle; opcode bytes by C01 table_sound.",
  "Branches across banks and addresses below the bank window carry no claim; a size suffix on a branch is ignored by the code (DESIGN section 8).")
CLAIMED["C07"] = ("full", "6/C07", "Lean 4 proof (omega/induction: little-endian truncation for every integer and width, decode, sizes) on the node and codegen model + differential correspondence with value oracle",
  "data_bytes, leBytes_decode, leBytes_length, data_size_agree, ascii_bytes, ascii_size_agree, incbin_bytes, incbin_symbols, gen_data. Tie: whole-pipeline model vs real assembler on data-directive programs (all kinds, boundary/negative/too-wide values, forward/backward labels, incbin of lengths 0..crossing a bank end) with the little-endian oracle on the per-node trace and label-after = start + size.",
  "Quoted texts without backslash escapes (DESIGN section 8).")

CLAIMED["C08"] = ("lookup, isolation, export and replay consistency proved for every AST; alpha-invariance by metamorphic twins", "6/C08", "Lean 4 proof on the resolver model (strong induction over the parent chain for lexical lookup, congruence for isolation, list induction for named-scope export) and on the whole code generator (induction on the nesting budget and the AST with a Hoare-style post-condition composed along the monadic code: the generated node list replays the scope structure it created; the passes follow that replay) + whole-pipeline correspondence + metamorphic twins on the real assembler",
  "valueFor_here/outward/root (innermost definition wins, falls back outward to the top level), isolation (a scope that is not the current one or an ancestor cannot influence a lookup), export_named + exported_last + exported_other (scopename.name gets the value, nothing else changes), restore_plain, appendScope_lexical; replay_consistent (for every AST and budget: positional replay of the generated ScopeNode/PopScopeNode markers enters exactly the scope created for each construct, returns to the enclosing scope, enters every new scope once, never runs out of scopes or parents, for every later extension of the scope list), scope_body_in_child, label_pass_follows_replay, emission_follows_replay, pass_skips_no_scope_marker. Tie: whole-pipeline model vs real assembler on generated and shadowing-heavy (wild) programs; twins (rename a local label to a fresh name; reuse a name in a sibling/inner scope; insert an unrelated definition) on the real assembler; hand-written families with expected bytes.",
  "Full alpha-invariance (renaming a scope-local name never changes the output) is not a theorem; it is exercised by the twins.")
CLAIMED["C09"] = ("full on the model for eager arguments (F09 repair); deferred-argument capture is a recorded limitation of the twin", "6/C09", "Lean 4 proof on the code-generation model (macro application = scope block with parameters bound to call-site values; code arguments spliced; failure cases) + whole-pipeline correspondence + inlined twins on the real assembler",
  "macro_is_block, block_is_scope, arg_value_at_call_site, deferred_arg, code_arg_spliced, not_code_fails, undefined_code_fails, undefined_macro_fails, too_few_args_fails(_gen), macro_def_records. Tie: model vs real assembler on generated programs with macros; twin = every application replaced by a block evaluating the arguments at the call site and binding the parameters; hand-written families (parameter-name coincidences, forward labels, local labels, nested and recursive applications, code blocks in nested scopes, failure cases).",
  "An argument deferred to the symbol pass (it names a label defined later) is evaluated inside the macro scope; generated programs use parameter names that cannot capture it.")
CLAIMED["C10"] = ("full on the model", "6/C10", "Lean 4 proof on the code-generation model (case analysis of generate_if on the evaluation outcome; generate_for = mapM of scoped iterations over range) + whole-pipeline correspondence + hand-expanded twins on the real assembler",
  "if_true, if_false, if_undefined, if_error_propagates, for_unrolls, for_empty, iteration_shape, for_count_*. Tie: model vs real assembler on generated programs; twin = .if replaced by the selected branch, .for by one block per iteration; hand-written families (zero / non-zero / negative / undefined conditions with and without else, empty / single / many iterations, bounds from constants and macro parameters, nested loops, labels in bodies).",
  "Loop counts are bounded by the generator; Python's recursion limit is modelled by a nesting budget of 400.")

CLAIMED["C15"] = ("full for the scanner (scan_terminates, every input and both lexing states); parser fuel sufficiency by stream only", "6/C15", "Lean 4 proof: a post-condition (same input, pos never decreases, no loop out of fuel, a return with pos unchanged emitted nothing) is proved for every scanner primitive and every state function and composed along the do-blocks of the model into scan_terminates (the model returns OUT-OF-FUEL exactly where the Python loop would not terminate); termination of the table encoder and the IPS split loop; differential correspondence under a watchdog",
  "scan_terminates (for every configuration, both initial states and every text, Scanner.scan returns tokens or raises a ScannerException; at most len(input) state calls), state_call_progress / state_call_no_fuel, acceptRun_terminates + acceptRun_sites (all call sites, incl. the negated \\n\\0 run), lineComment_terminates, blockComment_terminates, quoted_terminates, scanLoop_progress / scanLoop_no_progress_raises, gen_budget_exhausted, ipsWrite_fuel, C18.toBytes_fuel. Tie: S7 (exhaustive short strings, lexeme sequences, mutants of samples and generated programs, both lexing states, real scanner under a watchdog vs the model), S6 (token sequences through the real parser under a watchdog), S4 (whole pipeline: recursive macros, self-including files, loops, unterminated constructs).",
  "Parser fuel sufficiency is not yet a theorem (stream S6). Time bounds beyond the iteration count of the outer scanner loop are not proved; Python's recursion limit and open-file limit are modelled by a nesting budget (outcomes are compared as rejected/accepted there).")

CLAIMED["C17"] = ("partial: bookkeeping invariant and position theorem for the scanner primitives, NodeError line; composition over all scanner states by stream", "6/C17", "Lean 4 proof (invariant of next(): line number = newlines before pos, line offset = index after the last one; emitted / raised positions = true (line, column) of the token start; prefix-independence; NodeError carries the statement's file_info) + whole-pipeline correspondence of error reports + error-insertion oracle on the real assembler",
  "next_inv, init_inv, position_is_truePos, emit_position, err_position, truePos_prefix, node_error_line, data_error_line. Tie: whole-pipeline model vs real assembler on (file, line, column, quoted line) of every report; oracle: an erroneous statement inserted at line positions of generated programs (main and included file, after comment / blank / block / macro / multi-line-comment prefixes) must be reported at its own file, line, column and text.",
  "That every scanner state function preserves the invariant is not yet a theorem (tied by the S7 stream of C15, which compares every token position). Message texts are not compared, only locations.")

CLAIMED["C16"] = ("partial: the parser/codegen/literal pieces proved; composition over source texts by metamorphic twins", "6/C16", "Lean 4 proof of the layout-independence pieces (comment tokens skipped by the statement loop, case-insensitive mnemonic / index register / hex digits, .include generated inline, blanks ignored by ignore_run) + whole-pipeline correspondence + metamorphic relayout twins on the real assembler",
  "comment_skipped, mnemonic_case, asciiLower_idem, index_case, hex_digit_case, include_is_inline, spaces_ignored. Tie: relayout twins (random compositions of every listed presentation change at every applicable position, plus moving a run of statements into an included file) of generated programs and of the repository samples: bytes, offsets and all label values equal; relayouted texts also run through the model.",
  "The full printer/scanner round-trip theorem (C16_scan_render of DESIGN section 6) is not proved. A blank between an inner index register and its closing bracket `(e,s )` is not among the listed changes (the code rejects it); see DESIGN section 8.")

CLAIMED["C14"] = ("partial: decision logic proved; process exit and logging by correspondence", "6/C14", "Lean 4 proof by exhaustive case analysis of the front-end decision logic (4 entry points x 5 outcome classes of the core) tied to the pipeline model by coreClassOf + fault-injection correspondence through the real entry points (x816 as a subprocess)",
  "success_iff_ok, announce_only_ok, failure_reaches_caller, cli_status, ok_iff_output. Tie: stream S8-status: 16 definite error kinds injected at statement positions of generated programs, through the string API, Program.assemble, Program.assemble_as_patch and the x816 command line; reported status/announcement compared with the model and checked against the in-memory outcome (oracle).",
  "argparse, file creation, sys.exit and logging are exercised, not modelled. A raise from a file API counts as failure reaching the caller.")

CLAIMED["C12"] = ("partial: option logic and file-format algebra proved; OS layer by correspondence", "6/C12", "Lean 4 proof over an abstract core assembler (front end = writer of the core's blocks under the selected mapping / copier flag / defines; SFC image = IPS patch applied to an empty image via the C11 theorems; copier shift; plan selection; bus table check by kernel evaluation) + correspondence of the real file APIs and of the x816 subprocess over the whole option lattice",
  "ips_front, sfc_front, plan_mapping/format/defines/copier_sfc, mappings_have_bus, copier_shift, sfc_is_ips_applied, symbol_line_fields. Tie: stream S8-front: every lattice point format x mapping x copier x defines with generated programs through Program.assemble / assemble_as_patch and the command line; output files compared with the model of the writers applied to the in-memory blocks and checked by the reader/patcher oracle; S8-symbol-file for exports_symbol_file.",
  "argparse, file I/O and process exit are not modelled. The command line has no option for the symbol file (API only).")

CLAIMED["C19"] = ("partial: the inductive argument is proved; immutability of the shared Python objects is observed by a monitor", "6/C19", "Lean 4 proof (history irrelevance and repeatability for any step function satisfying the frame condition; the model's assembler is a pure function of its arguments; frozen built-in buses reject .map — regenerated tables) + history correspondence in fresh interpreters with a monitor that fingerprints every module/class-level mutable object and function default of the packages",
  "frame_run, history_irrelevant, repeatable, model_frame, builtin_buses_frozen, frozen_bus_rejects_map. Tie: stream S19: histories of assemblies (macros, symbols, tables, custom maps of different geometry, failures in each phase) then a probe, in one fresh interpreter, vs the probe alone in another; the object inventory is the one of harness/extract.py (`Gen.globals`), recomputed in the child, so a new module-level cache is monitored automatically.",
  "The frame condition for the real code is observed on the generated histories, not proved.")

NOT_YET = {}

def main():
    props = [json.loads(l) for l in open(os.path.join(HERE, "properties.jsonl"))]
    checks, na = [], []
    for p in props:
        i = p["id"]
        if i in CLAIMED:
            strength, ref, tech, text, note = CLAIMED[i]
            checks.append({
                "property_id": i,
                "quick_cmd": f"bin/check {i} quick",
                "thorough_cmd": f"bin/check {i} thorough",
                "evidence_file": f"evidence/{i}.json",
                "replay_cmd_template": f"bin/check {i} --replay {{path}}",
                "engine": "lean4-proof+correspondence",
                "level_claimed": {"category": "proof", "text": f"[{strength}] {text}", "design_ref": f"DESIGN.md section {ref}"},
                "level_note": note + " Trusted base: Lean kernel; axioms propext/Classical.choice/Quot.sound only (audited each run); Spec/*.lean; extract.py; the correspondence harness.",
                "technique": tech,
            })
        else:
            na.append({"property_id": i, "reason": NOT_YET.get(i, "not claimed yet: model/theorems for this property are still being built (see DESIGN.md section 11); no check is registered until it is sound")})
    man = {
        "version": 1,
        "setup_cmd": "bin/setup",
        "hooks": {"guard": "A816_VERIF", "enable": "no hooks are needed: checks import the /repo working tree as it is (A816_VERIF is reserved and unused)",
                  "baseline_off_cmd": "cd /repo && /venv/bin/python -m pytest -ra -q -p no:cacheprovider --timeout=900",
                  "source_commits": [], "add_only": True},
        "engines": [{"name": "lean4-proof+correspondence", "path": "lean/ , harness/",
                     "serves_properties": sorted(CLAIMED), "kind_free_text": "Lean 4 model + theorems (lake project lean/A816), data tables regenerated from /repo by harness/extract.py, compiled line-protocol driver, Python correspondence/oracle harness"}],
        "checks": checks,
        "notes": "Every check regenerates lean/A816/Gen/Tables.lean from /repo, rebuilds the property's theorems and the driver, audits axioms, runs its correspondence streams and the Spec oracle on the real code. Exit 2 = timeout/infrastructure. known_findings.json lists recorded findings and fixed defects.",
        "not_applicable": na,
    }
    json.dump(man, open(os.path.join(HERE, "MANIFEST.json"), "w"), indent=1)
    print("claimed", sorted(CLAIMED), "unclaimed", len(na))

if __name__ == "__main__":
    main()
