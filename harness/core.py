"""Core of the check harness: generate -> build -> audit -> correspondence/oracle -> verdict -> evidence.

Run by bin/check with /venv/bin/python.  Only the standard library is used.
"""
from __future__ import annotations

import contextlib
import fcntl
import hashlib
import json
import os
import random
import re
import shutil
import signal
import subprocess
import sys
import tempfile
import time

VERIF = os.path.dirname(os.path.dirname(os.path.abspath(__file__)))
REPO = os.environ.get("A816_REPO", "/repo")
LEAN = os.path.join(VERIF, "lean")
GEN = os.path.join(LEAN, "A816", "Gen", "Tables.lean")
DRIVER = os.path.join(LEAN, ".lake", "build", "bin", "driver")
PY = "/venv/bin/python" if os.path.exists("/venv/bin/python") else sys.executable
ALLOWED_AXIOMS = {"propext", "Classical.choice", "Quot.sound"}
FORBIDDEN = re.compile(r"\b(sorry|admit|native_decide|bv_decide|implemented_by|unsafe |maxHeartbeats 0)|^axiom ", re.M)

TRUSTED_BASE = [
    "Lean 4.33.0 kernel (type-checks every theorem; `decide +kernel` is kernel evaluation)",
    "axioms allowed: propext, Classical.choice, Quot.sound (audited per theorem on every run via Lean.collectAxioms)",
    "Spec/*.lean: the hand-written reference semantics that give the property its meaning",
    "harness/extract.py: translator that regenerates Gen/Tables.lean from the live Python objects of /repo",
    "correspondence harness (generators, canonicaliser, driver line protocol): ties the hand-written model to the code on the inputs it explores",
    "CPython semantics of int, struct, dict order, str slicing as modelled (DESIGN.md section 3)",
]


class Timeout(BaseException):
    pass


@contextlib.contextmanager
def watchdog(seconds: float):
    """Raise Timeout in the main thread after `seconds` (used around calls into the real code)."""

    def handler(signum, frame):
        raise Timeout()

    old = signal.signal(signal.SIGALRM, handler)
    signal.setitimer(signal.ITIMER_REAL, seconds)
    try:
        yield
    finally:
        signal.setitimer(signal.ITIMER_REAL, 0)
        signal.signal(signal.SIGALRM, old)


@contextlib.contextmanager
def locked():
    path = os.path.join(VERIF, ".lock")
    with open(path, "w") as f:
        fcntl.flock(f, fcntl.LOCK_EX)
        try:
            yield
        finally:
            fcntl.flock(f, fcntl.LOCK_UN)


def run(cmd, cwd=None, timeout=3600, env=None, input=None):
    e = dict(os.environ)
    e.setdefault("LC_ALL", "C.UTF-8")
    if env:
        e.update(env)
    return subprocess.run(cmd, cwd=cwd, capture_output=True, text=True, timeout=timeout, env=e, input=input)


def theorem_at(path: str, line: int) -> str:
    """Name of the theorem/def/example enclosing `line` of a Lean file."""
    name = "?"
    try:
        with open(path, encoding="utf-8") as f:
            for i, l in enumerate(f, 1):
                if i > line:
                    break
                m = re.match(r"\s*(?:private\s+)?(theorem|lemma|def|example|instance)\s*([^\s:(\[{]*)", l)
                if m:
                    name = m.group(2) or f"example@{i}"
    except OSError:
        pass
    return name


class Build:
    """Result of generate + build + audit for one property."""

    def __init__(self):
        self.extract_ok = True
        self.extract_msg = ""
        self.driver_ok = True
        self.driver_msg = ""
        self.props_ok = True
        self.failed_obligations: list[dict] = []  # {theorem, file, line, message}
        self.axioms: dict[str, list[str]] = {}  # theorem -> axioms
        self.audit_problems: list[str] = []
        self.seconds = 0.0

    @property
    def broken(self) -> list[str]:
        out = []
        if not self.extract_ok:
            out.append("translator harness/extract.py aborted: " + self.extract_msg[:300])
        if not self.driver_ok:
            out.append("model (driver) no longer builds against the regenerated tables: " + self.driver_msg[:300])
        for f in self.failed_obligations:
            out.append(f"theorem {f['theorem']} ({f['file']}:{f['line']}) no longer checks: {f['message'][:200]}")
        out += self.audit_problems
        return out


def parse_lake_errors(text: str) -> list[dict]:
    out = []
    for m in re.finditer(r"^error: (\S+\.lean):(\d+):(\d+): (.*(?:\n(?!error:|warning:|✖|✔|⚠|info:|trace:).*)*)", text, re.M):
        path, line = m.group(1), int(m.group(2))
        full = path if os.path.isabs(path) else os.path.join(LEAN, path)
        out.append({"file": path, "line": line, "theorem": theorem_at(full, line), "message": m.group(4).strip()})
    return out


def prepare(prop: str, thorough: bool = False) -> Build:
    """generate Gen/*.lean from /repo, build the driver and the property's theorems, audit axioms."""
    b = Build()
    t0 = time.time()
    with locked():
        r = run([PY, os.path.join(VERIF, "harness", "extract.py"), REPO, GEN], cwd=VERIF)
        if r.returncode != 0:
            b.extract_ok = False
            b.extract_msg = (r.stderr or r.stdout).strip()
            # fall back to the committed snapshot so that the driver and the searchers still work
            snap = os.path.join(LEAN, "A816", "GenSnapshot", "Tables.lean.txt")
            if os.path.exists(snap):
                shutil.copy(snap, GEN)
        r = run(["lake", "build", "driver"], cwd=LEAN)
        if r.returncode != 0:
            b.driver_ok = False
            b.driver_msg = (r.stdout + r.stderr)[-3000:]
        mod = f"A816.Props.{prop}"
        if os.path.exists(os.path.join(LEAN, "A816", "Props", f"{prop}.lean")):
            r = run(["lake", "build", mod], cwd=LEAN)
            if r.returncode != 0:
                b.props_ok = False
                errs = parse_lake_errors(r.stdout + r.stderr)
                if not errs:
                    errs = [{"file": f"A816/Props/{prop}.lean", "line": 0, "theorem": "?", "message": (r.stdout + r.stderr)[-600:]}]
                b.failed_obligations = errs
            else:
                audit(prop, b)
                if thorough:
                    r = run(["lake", "env", "leanchecker", mod], cwd=LEAN, timeout=3600)
                    if r.returncode != 0:
                        b.audit_problems.append("leanchecker rejected " + mod + ": " + (r.stdout + r.stderr)[-300:])
        # source-level audit of the whole project
        for root, _, files in os.walk(os.path.join(LEAN, "A816")):
            for fn in files:
                if fn.endswith(".lean"):
                    p = os.path.join(root, fn)
                    src = open(p, encoding="utf-8").read()
                    src_nc = re.sub(r"/-.*?-/", "", src, flags=re.S)
                    src_nc = re.sub(r"--.*", "", src_nc)
                    m = FORBIDDEN.search(src_nc)
                    if m:
                        b.audit_problems.append(f"forbidden construct {m.group(0)!r} in {os.path.relpath(p, LEAN)}")
    b.seconds = time.time() - t0
    return b


AUDIT_TEMPLATE = """import Lean
import A816.Props.{prop}
open Lean Elab Command
run_cmd do
  let env ← getEnv
  for (n, ci) in env.constants.map₁.toList do
    match ci with
    | .thmInfo _ =>
      match env.getModuleIdxFor? n with
      | some idx =>
        let mod := env.header.moduleNames[idx.toNat]!
        if mod == `A816.Props.{prop} && !n.isInternal && n.getPrefix == `A816.{prop} then
          let ax ← Lean.collectAxioms n
          logInfo m!"AXIOMS {{n}} {{ax.toList}}"
      | none => pure ()
    | _ => pure ()
"""


def audit(prop: str, b: Build) -> None:
    d = os.path.join(LEAN, ".audit")
    os.makedirs(d, exist_ok=True)
    path = os.path.join(d, f"Audit{prop}.lean")
    with open(path, "w", encoding="utf-8") as f:
        f.write(AUDIT_TEMPLATE.format(prop=prop))
    r = run(["lake", "env", "lean", path], cwd=LEAN)
    out = r.stdout + r.stderr
    for m in re.finditer(r"AXIOMS (\S+) \[(.*?)\]", out, re.S):
        name = m.group(1)
        axs = [a.strip() for a in m.group(2).replace("\n", " ").split(",") if a.strip()]
        b.axioms[name] = axs
        bad = [a for a in axs if a not in ALLOWED_AXIOMS]
        if bad:
            b.audit_problems.append(f"theorem {name} depends on non-standard axioms {bad}")
    if r.returncode != 0 or not b.axioms:
        b.audit_problems.append("axiom audit did not run: " + out[-300:])


class Driver:
    """Batch interface to the compiled Lean model."""

    def __init__(self):
        self.calls = 0
        self.lines = 0

    def ask(self, lines: list[str], timeout=3600, soft_timeout: float | None = None) -> list[str]:
        """soft_timeout: the ops come from the code under test (e.g. a token list produced by the real parser) and
        one of them may make the model compute something astronomically large; instead of hanging, the batch is
        split until the offending op is isolated and answered `driver-timeout`"""
        if not lines:
            return []
        if soft_timeout is not None:
            try:
                return self.ask(lines, timeout=soft_timeout)
            except subprocess.TimeoutExpired:
                if len(lines) == 1:
                    return ["driver-timeout"]
                k = max(1, len(lines) // 8)
                out = []
                for i in range(0, len(lines), k):
                    out += self.ask(lines[i:i + k], soft_timeout=max(3.0, soft_timeout / 3))
                return out
        for l in lines:
            if "\n" in l:
                raise ValueError("newline in driver op")
        self.calls += 1
        self.lines += len(lines)
        if not os.path.exists(DRIVER):
            return ["driver-missing"] * len(lines)
        r = subprocess.run([DRIVER], input="\n".join(lines) + "\n", capture_output=True, text=True, timeout=timeout)
        out = r.stdout.split("\n")
        if out and out[-1] == "":
            out.pop()
        if len(out) != len(lines):
            # crash (e.g. stack overflow): pad so that the caller sees disagreements, not an exception
            out += ["driver-crashed"] * (len(lines) - len(out))
        return out


def hx(s: str) -> str:
    """text -> hex of UTF-8 (so that no quoting layer can differ between the two sides)"""
    return s.encode("utf-8").hex() or "-"


def hash_step(h: int, s: str) -> int:
    M = 2305843009213693951
    h = (h * 1000003 + 7) % M
    for ch in s:
        h = (h * 1000003 + ord(ch) + 1) % M
    return h


class Stream:
    """One correspondence/oracle stream: counts, disagreements (model != code), violations (oracle on the code)."""

    def __init__(self, name: str, what: str):
        self.name = name
        self.what = what
        self.cases = 0
        self.nontrivial: set = set()
        self.disagreements: list[dict] = []
        self.violations: list[dict] = []
        self.samples: list = []
        self.hist: dict[str, int] = {}
        self.exhaustive = False

    def count(self, key: str, n: int = 1):
        self.hist[key] = self.hist.get(key, 0) + n

    def sample(self, x, limit=6):
        if len(self.samples) < limit:
            self.samples.append(x)

    def disagree(self, inp, model, impl, note=""):
        if len(self.disagreements) < 50:
            self.disagreements.append({"stream": self.name, "input": inp, "model": model, "impl": impl, "note": note})
        else:
            self.count("more-disagreements")

    def violate(self, inp, expected, actual, what):
        if len(self.violations) < 50:
            self.violations.append({"stream": self.name, "input": inp, "expected_by_spec": expected, "actual": actual, "what": what})
        else:
            self.count("more-violations")


def load_known():
    p = os.path.join(VERIF, "known_findings.json")
    try:
        return json.load(open(p, encoding="utf-8"))
    except FileNotFoundError:
        return {"findings": [], "fixed": []}


def finding_matches(f: dict, v: dict) -> bool:
    m = f.get("match", {})
    if "input" in m and m["input"] != v.get("input"):
        return False
    if "stream" in m and m["stream"] != v.get("stream"):
        return False
    if "input_contains" in m and m["input_contains"] not in json.dumps(v.get("input")):
        return False
    return bool(m)


def finish(prop: str, tier: str, seed: int, t0: float, build: Build, streams: list[Stream], extra: dict | None = None,
           obligations_note: str = "", assumptions: list[str] | None = None) -> int:
    """Decide, write evidence and replays, print the verdict lines; returns the exit status."""
    known = load_known()
    my_findings = [f for f in known.get("findings", []) if f.get("property") == prop]
    violations, listed = [], []
    for s in streams:
        for v in s.violations:
            hit = next((f for f in my_findings if finding_matches(f, v)), None)
            (listed if hit else violations).append((hit, v) if hit else v)
    disagreements = [d for s in streams for d in s.disagreements]
    broken = build.broken
    status = 0
    os.makedirs(os.path.join(VERIF, "replays"), exist_ok=True)
    printed = set()
    for f, v in listed:
        key = f.get("id", "") + f.get("what", "")
        if key not in printed:
            printed.add(key)
            print(f"KNOWN-FINDING: property={prop} {f.get('id','')} {f.get('what','')}")

    def write_replay(obj) -> str:
        blob = json.dumps(obj, sort_keys=True, ensure_ascii=False, default=str)
        name = f"{prop}-{hashlib.sha1(blob.encode()).hexdigest()[:12]}.json"
        path = os.path.join(VERIF, "replays", name)
        with open(path, "w", encoding="utf-8") as fh:
            json.dump(obj, fh, indent=1, ensure_ascii=False, default=str)
        return os.path.join("replays", name)

    if violations:
        status = 1
        v = violations[0]
        rp = write_replay({"property": prop, "kind": "counterexample", **v, "seed": seed, "tier": tier,
                           "also": violations[1:6], "broken_obligations": broken[:10],
                           "cmd": f"bin/check {prop} {tier}", "repo": REPO})
        print(f"VIOLATION property={prop} replay={rp}")
    elif broken or disagreements:
        status = 1
        rp = write_replay({"property": prop, "kind": "broken-obligation",
                           "obligations": broken[:20],
                           "correspondence": disagreements[:10],
                           "note": "a proof obligation or the model/code correspondence no longer checks; the search over the model and the implementation found no input on which the property itself fails",
                           "seed": seed, "tier": tier, "cmd": f"bin/check {prop} {tier}", "repo": REPO})
        print(f"VIOLATION property={prop} replay={rp} no-failing-input-found")

    n_obl = len(build.axioms) + len(build.failed_obligations)
    n_ok = len(build.axioms) if build.props_ok and not build.audit_problems else max(0, len(build.axioms) - len(build.audit_problems))
    cases = sum(s.cases for s in streams)
    nontriv = sum(len(s.nontrivial) for s in streams)
    samples = []
    for s in streams:
        for x in s.samples[:4]:
            samples.append({"stream": s.name, "case": x})
    for name in list(build.axioms)[:3]:
        samples.append({"obligation": name, "axioms": build.axioms[name]})
    cov = {
        "obligations": max(n_obl, 1),
        "discharged": n_ok,
        "checker_cmd": f"cd lean && lake build A816.Props.{prop} && lake env lean .audit/Audit{prop}.lean" + (" && lake env leanchecker A816.Props." + prop if tier == "thorough" else ""),
        "trusted_base": TRUSTED_BASE,
        "theorems": {k: v for k, v in sorted(build.axioms.items())},
        "failed_obligations": build.failed_obligations[:20],
        "audit_problems": build.audit_problems[:20],
        "obligations_note": obligations_note,
        "programs": cases,
        "evaluations": cases,
        "distinct_nontrivial": nontriv,
        "disagreements_checked": cases,
        "disagreements_found": len(disagreements),
        "rule": "; ".join(f"{s.name}: {s.what}" for s in streams),
        "samples": samples or [{"note": "no stream ran"}],
        "streams": {s.name: {"cases": s.cases, "distinct_nontrivial": len(s.nontrivial), "exhaustive": s.exhaustive,
                             "distribution": dict(sorted(s.hist.items())), "disagreements": len(s.disagreements),
                             "violations": len(s.violations)} for s in streams},
        "exhaustive": bool(streams) and all(s.exhaustive for s in streams),
        "build_seconds": round(build.seconds, 1),
        "known_findings_reproduced": sorted(printed),
    }
    if extra:
        cov.update(extra)
    ev = {
        "property_id": prop,
        "tier": tier,
        "seed": seed,
        "level": "proof",
        "coverage": cov,
        "assumptions": (assumptions or []) + ["see DESIGN.md section 9 (trusted base) and the property's section 6 entry"],
        "wall_s": round(time.time() - t0, 2),
        "violations": len(violations) + (1 if (broken or disagreements) and not violations else 0),
    }
    os.makedirs(os.path.join(VERIF, "evidence"), exist_ok=True)
    with open(os.path.join(VERIF, "evidence", f"{prop}.json"), "w", encoding="utf-8") as fh:
        json.dump(ev, fh, indent=1, ensure_ascii=False, default=str)
    print(f"{prop} {tier}: obligations {n_ok}/{max(n_obl,1)} discharged, {cases} cases ({nontriv} distinct non-trivial), "
          f"{len(disagreements)} disagreements, {len(violations)} violations, {len(listed)} known, {ev['wall_s']}s")
    return status


def rng_for(seed: int, name: str) -> random.Random:
    return random.Random(f"{seed}:{name}")


def tmpdir():
    return tempfile.mkdtemp(prefix="a816verif-")
