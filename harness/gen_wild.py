"""Shadowing-heavy program generator ("wild" stream).

gen_program.py gives every definition a fresh name, so that almost every program assembles.  This generator does
the opposite: a pool of three or four names is reused for `:=` constants, `=` symbols, labels, loop variables,
macro parameters and code-block parameters, at every nesting level, defined before *and after* their uses;
operands are mostly unsuffixed (their width is inferred from whatever the name means at that moment); macros
may expand to nothing, splice a block argument several times, apply other macros inside spliced blocks;
`.text` sits several scopes below its `.table`.  Many programs are rejected — that is fine: the whole-pipeline
correspondence compares the model with the code on every one of them, and the per-node oracles apply to the
accepted ones.  Every random choice derives from the `random.Random` passed in.
"""
from __future__ import annotations

import re

import gen_program

NAMES = ["a", "b", "c", "d"]
VALS = [0, 1, 2, 3, 5, 0x12, 0x7F, 0xFF, 0x100, 0x1234, 0xFFFF, 0x8000, 0x10000, 0x123456]
SMALL = [0, 1, 2, 3, 5, 0x12, 0x7F, 0xFF, 0x100, 0x1234, 0xFFFF, 0x8010]
TABLE = "01=a\n02=b\n03=c\n04=d\n"
TABLE2 = "10=ab\n11=c\n12=a\n"


class Wild:
    def __init__(self, rng, drv, rom="low_rom"):
        self.rng = rng
        self.rom = rom
        self.sup = [x for x in gen_program.supported(drv) if not x[4] and x[2] > 0]
        self.imp = [x for x in gen_program.supported(drv) if x[2] == 0]
        widths = {}
        for x in self.sup:
            widths.setdefault((x[0], x[1]), set()).add(x[2])
        self.multi = [x for x in self.sup if len(widths[(x[0], x[1])]) >= 2]
        self.macros = []   # (name, [(param, kind)])
        self.scopes = []
        self.files = {}
        self.bins = {}
        self.hist = {}
        self.n = 0
        self.budget = 0

    def count(self, k):
        self.hist[k] = self.hist.get(k, 0) + 1

    def name(self):
        return self.rng.choice(NAMES)

    def lit(self, v=None):
        r = self.rng
        v = r.choice(VALS) if v is None else v
        return r.choice(["0x%x", "%d", "0x%X"]) % v

    def expr(self, params=()):
        r = self.rng
        c = r.random()
        pool = list(NAMES) + [p for p, k in params if k == "int"]
        if c < 0.55:
            return r.choice(pool)
        if c < 0.70:
            return f"{r.choice(pool)} {r.choice(['+', '-', '&', '>>', '<<'])} {self.lit(r.choice([0, 1, 2, 8, 0xFF]))}"
        if c < 0.76 and self.scopes:
            return f"{r.choice(self.scopes)}.{self.name()}"
        if c < 0.80:
            return f"{r.choice(pool)} {r.choice(['+', '-'])} {r.choice(pool)}"
        return self.lit()

    def instr(self, params):
        r = self.rng
        if r.random() < 0.15:
            mn, syn, w, op, rel = r.choice(self.imp)
            return [("instr", mn, syn, None, None)]
        mn, syn, w, op, rel = r.choice(self.sup if r.random() < 0.3 else self.multi)
        sfx = None if r.random() < 0.7 else (w if r.random() < 0.9 else r.choice([1, 2, 3]))
        self.count("instr:" + ("inferred" if sfx is None else "suffix"))
        return [("instr", mn, syn, sfx, self.expr(params))]

    def definition(self, params):
        r = self.rng
        c = r.random()
        n = self.name()
        if c < 0.35:
            self.count("def:const")
            return [("const", n, self.expr(params) if r.random() < 0.4 else self.lit(), 0)]
        if c < 0.65:
            self.count("def:symbol")
            return [("sym", n, self.expr(params) if r.random() < 0.5 else self.lit())]
        self.count("def:label")
        return [("label", n)]

    def body(self, depth, params=(), n=None):
        r = self.rng
        out = []
        for _ in range(n if n is not None else r.randrange(1, 6)):
            out += self.stmt(depth, params)
        return out

    def stmt(self, depth, params):
        r = self.rng
        self.budget += 1
        c = r.random()
        if self.budget > 60:
            return self.instr(params)
        if c < 0.24:
            return self.instr(params)
        if c < 0.40:
            return self.definition(params)
        if c < 0.50:
            kind = r.choice(["db", "dw", "dl", "pointer"])
            self.count("data")
            return [("data", kind, [self.expr(params) for _ in range(r.randrange(1, 4))])]
        if c < 0.53:
            self.count("text")
            if r.random() < 0.35:
                return [("table", r.choice(["w.tbl", "w2.tbl"]))]
            return [("text", "".join(r.choice(["a", "b", "c", "d", "ab", "?", "[0x05]", "[0xfe]", "e"]) for _ in range(r.randrange(0, 5))))]
        if c < 0.55:
            return [("ascii", "".join(r.choice("abXY 0") for _ in range(r.randrange(0, 5))))]
        code_params = [p for p, k in params if k == "code"]
        if c < 0.60 and code_params:
            self.count("lookup")
            return [("lookup", r.choice(code_params))]
        if depth >= 3:
            return self.instr(params)
        if c < 0.68:
            self.count("block")
            return [("block", self.body(depth + 1, params))]
        if c < 0.72 and not params:
            nm = "s" + str(r.randrange(1, 3))
            if nm not in self.scopes:
                self.scopes.append(nm)
            self.count("scope")
            return [("scope", nm, self.body(depth + 1, params))]
        if c < 0.80:
            self.count("if")
            cond = r.choice(["0", "1", self.expr(params), self.expr(params), "undefined_zz"])
            tb = self.body(depth + 1, params, n=r.randrange(0, 3))
            eb = self.body(depth + 1, params, n=r.randrange(0, 3)) if r.random() < 0.4 else None
            return [("if", cond, tb, eb)]
        if c < 0.87:
            self.count("for")
            lo = r.randrange(0, 3)
            pool = list(NAMES) + [p for p, k in params if k == "int"]
            hi = r.choice([self.lit(lo + r.randrange(0, 4)), self.lit(lo + r.randrange(0, 4)), f"{r.choice(pool)} & 3"])
            lo_txt = r.choice([self.lit(lo), self.lit(lo), f"{self.lit(lo * 2 + r.randrange(0, 2))} >> 1", f"{self.lit(lo | 0x10)} & 0xf",
                               f"{r.choice(pool)} & 3", f"1 << {r.randrange(0, 2)}"])
            return [("for", self.name(), lo_txt, hi, self.body(depth + 1, params, n=r.randrange(1, 3)))]
        if c < 0.97 and self.macros:
            # applications only of macros defined earlier: nesting is bounded
            name, ps = r.choice(self.macros)
            args = []
            for p, k in ps:
                if k == "code":
                    args.append(("code", self.body(depth + 1, params, n=r.randrange(1, 3))))
                else:
                    args.append(self.expr(params))
            if ps and r.random() < 0.05:
                args = args[:-1]
            self.count("apply")
            return [("apply", name, args)]
        if 0.97 <= c < 0.976:
            # a macro that no program of this run defines under that name with that arity: must fail, also when an
            # earlier assembly in the same process defined one
            self.count("apply-undefined")
            defined = {n for n, _ in self.macros}
            cands = [n for n in ("m1", "m2", "m3", "m4") if n not in defined] + ["m7"]
            return [("apply", r.choice(cands), [self.expr(params) for _ in range(r.randrange(0, 3))])]
        if 0.976 <= c < 0.981 and depth <= 1:
            self.count("include_ips")
            return [("include_ips", "w.ips", r.choice(["0", "0x10", "-0x8", "0x200", self.name()]))]
        if c < 0.985 and depth == 0:
            self.count("incbin")
            nm = f"w{len(self.bins)}.bin"
            self.bins[nm] = bytes(r.randrange(256) for _ in range(r.choice([0, 1, 3, 9])))
            return [("incbin", nm)]
        return self.instr(params)

    def macro_def(self):
        r = self.rng
        name = "m" + str(len(self.macros) + 1)
        ps = []
        for _ in range(r.randrange(0, 3)):
            p = r.choice(NAMES + ["p", "q"])
            if p not in [x for x, _ in ps]:
                ps.append((p, r.choice(["int", "int", "code"])))
        c = r.random()
        if c < 0.15:
            # expands to nothing (or to nothing unless its argument says so)
            cond = "0" if not [p for p, k in ps if k == "int"] or r.random() < 0.5 else [p for p, k in ps if k == "int"][0]
            body = [("if", cond, self.body(2, tuple(ps), n=1), None)]
            self.count("macro:maybe-empty")
        else:
            body = self.body(1, tuple(ps), n=r.randrange(1, 4))
            for p, k in ps:
                if k == "code":
                    for _ in range(r.choice([1, 1, 2, 3])):
                        body.insert(r.randrange(0, len(body) + 1), ("lookup", p))
        out = ("macro", name, [p for p, _ in ps], body)
        self.macros.append((name, ps))
        self.count("macro:def")
        return out

    def program(self):
        r = self.rng
        out = []
        base = {"low_rom": 0x008000, "high_rom": 0xC00000, "low_rom_2": 0x808000}[self.rom]
        out.append(("org", base + r.choice([0, 0, 0x10, 0x7F00 if self.rom != "high_rom" else 0xFF00])))
        for nm in NAMES[:r.choice([0, 2, 3, 4, 4, 4])]:
            out.append(("const", nm, self.lit(r.choice(SMALL)), 0))
        if r.random() < 0.35:
            out.append(("table", "w.tbl"))
        for _ in range(r.randrange(0, 4)):
            out.append(self.macro_def())
            if r.random() < 0.3:
                out += self.body(0, n=1)
        out += self.body(0, n=r.randrange(2, 9))
        if r.random() < 0.3:
            self.files["winc.s"] = gen_program.source(Wild.sub(self).body(1, n=r.randrange(1, 4)))
            out.insert(r.randrange(1, len(out) + 1), ("include", "winc.s"))
            if r.random() < 0.4:
                # the same file a second time (a repeated run of statements kept in one file)
                out.insert(r.randrange(1, len(out) + 1), ("include", "winc.s"))
        if r.random() < 0.2:
            out.append(("reloc", 0x7E0000 + r.randrange(0x1000)))
            out += self.body(0, n=r.randrange(1, 4))
        if r.random() < 0.3:
            out.append(("org", base + 0x10000 + r.randrange(0x100)))
            out += self.body(0, n=r.randrange(1, 4))
        recs = b""
        for _ in range(r.randrange(1, 4)):
            n = r.randrange(1, 5)
            recs += r.randrange(0x20, 0x9000).to_bytes(3, "big") + n.to_bytes(2, "big") + bytes(r.randrange(256) for _ in range(n))
        if r.random() < 0.3:
            recs += r.randrange(0x20, 0x9000).to_bytes(3, "big") + b"\x00\x00" + r.randrange(1, 6).to_bytes(2, "big") + bytes([r.randrange(256)])
        self.bins["w.ips"] = b"PATCH" + recs + b"EOF"
        self.files["w.tbl"] = TABLE
        self.files["w2.tbl"] = TABLE2
        return out

    def sub(self):
        w = Wild.__new__(Wild)
        w.__dict__ = dict(self.__dict__)
        w.budget = 40
        return w


INSTR_RE = re.compile(r"^\s*([A-Za-z]{3})(?:\.([bwlBWL]))?(?:\s+(\S.*?))?\s*$")


def syntax_of(operand: str | None):
    """syntax record ("op,imm,bracket,inner,outer") of an operand text without nested brackets or commas inside
    the expression; None when the text is not of that simple form"""
    if operand is None or operand == "":
        return "0,0,none,-,-"
    t = operand.strip()
    imm = "0"
    if t.startswith("#"):
        imm, t = "1", t[1:].strip()
    br, inner, outer = "none", "-", "-"
    m = re.match(r"^(.*?),\s*([xXyYsS])$", t)
    if t.startswith("(") or t.startswith("["):
        close = ")" if t[0] == "(" else "]"
        k = t.find(close)
        if k < 0:
            return None
        br = "paren" if t[0] == "(" else "square"
        inside, rest = t[1:k].strip(), t[k + 1:].strip()
        mi = re.match(r"^(.*?),\s*([xXyYsS])$", inside)
        if mi:
            inner = mi.group(2).lower()
        if rest:
            mo = re.match(r"^,\s*([xXyYsS])$", rest)
            if not mo:
                return None
            outer = mo.group(1).lower()
    elif m:
        outer = m.group(2).lower()
    return f"1,{imm},{br},{inner},{outer}"


def instr_lines(src: str, mnemonics):
    """line number -> (mnemonic, syntax record, suffix width or None) for the instruction lines of a source"""
    out = {}
    for i, line in enumerate(src.split("\n")):
        m = INSTR_RE.match(line)
        if not m or m.group(1).lower() not in mnemonics:
            continue
        syn = syntax_of(m.group(3))
        if syn is None:
            continue
        out[i] = (m.group(1).lower(), syn, {"b": 1, "w": 2, "l": 3}.get((m.group(2) or "").lower()))
    return out


def generate(rng, drv, rom=None):
    rom = rom or rng.choice(["low_rom", "low_rom", "low_rom", "high_rom", "low_rom_2"])
    g = Wild(rng, drv, rom=rom)
    st = g.program()
    return {"stmts": st, "src": gen_program.source(st), "rom": rom, "files": g.files, "bins": g.bins, "hist": g.hist, "usermap": None}
