"""Line coverage of the /repo sources under the correspondence / oracle streams (which code the tie really exercises).

Enabled with A816_COV=<output json>: bin/check then records, with sys.monitoring (Python 3.12), every executed line of
the a816 and script packages of the working tree under test and writes {file: [lines]} at exit.  `python
harness/covmap.py merge <json>...` prints, per source file, the executable lines no check executed.  This is
measurement only (what the differential testing reaches); it decides nothing."""
from __future__ import annotations

import json
import os
import sys

_seen: dict[str, set] = {}


def start(repo: str):
    mon = sys.monitoring
    tool = mon.COVERAGE_ID
    mon.use_tool_id(tool, "a816verif-cov")
    prefix = (os.path.join(os.path.realpath(repo), "a816") + os.sep, os.path.join(os.path.realpath(repo), "script") + os.sep)

    def on_line(code, line):
        fn = code.co_filename
        if fn.startswith(prefix):
            _seen.setdefault(fn, set()).add(line)
            return None
        return mon.DISABLE

    mon.register_callback(tool, mon.events.LINE, on_line)
    mon.set_events(tool, mon.events.LINE)


def dump(path: str, repo: str):
    root = os.path.realpath(repo) + os.sep
    out = {fn[len(root):]: sorted(ls) for fn, ls in _seen.items()}
    with open(path, "w", encoding="utf-8") as fh:
        json.dump(out, fh)


def executable_lines(path: str) -> set:
    import ast
    src = open(path, encoding="utf-8").read()
    tree = ast.parse(src)
    lines = set()
    for node in ast.walk(tree):
        if isinstance(node, ast.stmt) and not isinstance(node, (ast.FunctionDef, ast.AsyncFunctionDef, ast.ClassDef, ast.Import, ast.ImportFrom)):
            # docstrings are expression statements holding a constant
            if isinstance(node, ast.Expr) and isinstance(node.value, ast.Constant) and isinstance(node.value.value, str):
                continue
            lines.add(node.lineno)
    return lines


def merge(paths, repo="/repo"):
    seen: dict[str, set] = {}
    for p in paths:
        for fn, ls in json.load(open(p)).items():
            seen.setdefault(fn, set()).update(ls)
    total = hit = 0
    report = {}
    for pkg in ("a816", "script"):
        for dirpath, _, files in os.walk(os.path.join(repo, pkg)):
            for f in sorted(files):
                if not f.endswith(".py"):
                    continue
                full = os.path.join(dirpath, f)
                rel = os.path.relpath(full, repo)
                ex = executable_lines(full)
                got = seen.get(rel, set()) & ex
                total += len(ex)
                hit += len(got)
                missing = sorted(ex - got)
                report[rel] = {"executable": len(ex), "executed": len(got), "missing": missing}
    return {"executable": total, "executed": hit, "files": report}


if __name__ == "__main__":
    if sys.argv[1] == "merge":
        r = merge(sys.argv[2:])
        print(f"executed {r['executed']} of {r['executable']} executable lines")
        for fn, d in sorted(r["files"].items()):
            if d["missing"]:
                print(f"{fn}: {d['executed']}/{d['executable']}  missing {d['missing']}")
